#!/usr/bin/env python3
"""tools/mkindex.py - regenerates seeded/INDEX.json from the meta.json of every kept seeded change."""
import json
import os

ROOT = os.path.dirname(os.path.dirname(os.path.abspath(__file__)))
out = []
for d in sorted(os.listdir(os.path.join(ROOT, 'seeded'))):
    mp = os.path.join(ROOT, 'seeded', d, 'meta.json')
    if not os.path.isfile(mp):
        continue
    m = json.load(open(mp))
    conf = m.get('confirmed')
    if isinstance(conf, dict):
        pd = conf.get('patch.diff') or {}
        conf = {'at_commit': conf.get('at_commit'), 'applies': pd.get('applies'), 'suite_same_as_baseline': pd.get('suite_same_as_baseline'),
                'demo_fails_with_change': bool(pd.get('demo_fails_with_change')), 'demo_passes_without_change': pd.get('demo_passes_without_change')}
    out.append({'id': d, 'property': m.get('property'), 'caught_by_quick_tier': m.get('caught_by_quick_tier') or [],
                'note': m.get('note') or '', 'obsolete': m.get('obsolete'), 'rebased': bool(m.get('rebased')), 'confirmed': conf})
json.dump(out, open(os.path.join(ROOT, 'seeded', 'INDEX.json'), 'w'), indent=1)
print(len(out), 'seeded changes')
