#!/usr/bin/env python3
"""Regenerates /verif/MANIFEST.json from the table below (kept in one place so it is always valid)."""
import json
import os
import subprocess

PROPS = [json.loads(l)['id'] for l in open('/verif/properties.jsonl')]

MC = 'model_checking'
CHECKS = {}


def chk(pid, category, text, note, technique, design_ref, thorough=True):
    CHECKS[pid] = {
        'property_id': pid,
        'quick_cmd': 'bin/check %s --tier quick' % pid,
        'evidence_file': '/verif/evidence/%s.json' % pid,
        'replay_cmd_template': 'bin/check replay {path}',
        'engine': 'tlc+harness',
        'level_claimed': {'category': category, 'text': text, 'design_ref': design_ref},
        'level_note': note,
        'technique': technique,
    }
    if thorough:
        CHECKS[pid]['thorough_cmd'] = 'bin/check %s --tier thorough' % pid


TRUST = ('trusted base: TLC, the hooks (events are emitted under the lock protecting what they report), the scripted in-process deployer/plugin '
         'standing in for container deployers, Dgraph.tla as a model of go.arcalot.io/dgraph v1.7.0')

exec(open('/verif/tools/manifest_table.py').read())

hooks = subprocess.run(['git', '-C', '/repo', 'log', '--format=%h %s'], capture_output=True, text=True).stdout.splitlines()
hook_commits = [l.split()[0] for l in hooks if 'verif hooks' in l]
m = {
    'version': 1,
    'setup_cmd': 'bin/setup.sh',
    'hooks': {'guard': 'verif', 'enable': 'go build -tags verif; the harness is compiled inside /repo\'s module with -overlay (bin/build_harness.sh), no file added to /repo',
              'baseline_off_cmd': 'bin/baseline_off.sh', 'source_commits': hook_commits, 'add_only': True},
    'engines': ENGINES,
    'checks': [CHECKS[p] for p in PROPS if p in CHECKS],
    'notes': NOTES,
    'not_applicable': [{'property_id': p, 'reason': NA.get(p, 'check not built yet (work in progress; see DESIGN.md section 11)')} for p in PROPS if p not in CHECKS],
}
json.dump(m, open('/verif/MANIFEST.json', 'w'), indent=1)
print('checks:', sorted(CHECKS), 'not applicable:', [p for p in PROPS if p not in CHECKS])
