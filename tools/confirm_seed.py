#!/usr/bin/env python3
"""tools/confirm_seed.py <seeded dir>...   Confirms a seeded change in a scratch worktree of /repo (never in /repo itself):
the patch applies and builds (with and without the verif tag), the pinned suite still passes with it (the root package's
podman-dependent tests fail with and without it and are compared by name), its demonstration fails with the change and
passes without it.  Writes the outcome into <dir>/meta.json under "confirmed"."""
import glob
import json
import os
import re
import shutil
import subprocess
import sys

ENV = dict(os.environ, GOFLAGS='-mod=mod', GOPROXY='off', GOSUMDB='off', GOTOOLCHAIN='local')
WT = '/tmp/seedchk'
PKG = {'workflow': './workflow', 'workflow_test': './workflow', 'engine': '.', 'engine_test': '.', 'builtinfunctions': './internal/builtinfunctions',
       'builtinfunctions_test': './internal/builtinfunctions', 'foreach': './internal/step/foreach', 'foreach_test': './internal/step/foreach',
       'plugin': './internal/step/plugin', 'plugin_test': './internal/step/plugin', 'main': './cmd/arcaflow', 'main_test': './cmd/arcaflow',
       'loadfile': './loadfile', 'loadfile_test': './loadfile', 'infer': './internal/infer', 'infer_test': './internal/infer',
       'yaml': './internal/yaml', 'yaml_test': './internal/yaml'}


def sh(cmd, **kw):
    return subprocess.run(cmd, shell=True, capture_output=True, text=True, env=ENV, **kw)


def failing(out):
    return sorted(set(re.findall(r'^--- FAIL: (\S+)', out, re.M)))


def suite():
    p = sh('go test -vet=off -count=1 ./... 2>&1', cwd=WT)
    return failing(p.stdout), [l for l in p.stdout.splitlines() if l.startswith('FAIL') and '\t' in l]


def main():
    sh('git -C /repo worktree remove --force %s; rm -rf %s; git -C /repo worktree prune' % (WT, WT))
    r = sh('git -C /repo worktree add --detach %s HEAD' % WT)
    if r.returncode:
        print(r.stderr)
        return 2
    try:
        base_fail, _ = suite()
        print('baseline failing tests (no change):', len(base_fail))
        for d in sys.argv[1:]:
            d = os.path.abspath(d.rstrip('/'))
            out = {'at_commit': sh('git -C /repo rev-parse --short HEAD').stdout.strip()}
            patches = sorted(glob.glob(d + '/patch*.diff'))
            demos = sorted(glob.glob(d + '/*.go.txt') + glob.glob(d + '/*_test.go'))
            for pt in patches:
                key = os.path.basename(pt)
                o = {}
                sh('git checkout -- . && git clean -fdq', cwd=WT)
                a = sh('git apply %s' % pt, cwd=WT)
                o['applies'] = a.returncode == 0
                if not o['applies']:
                    out[key] = o
                    print(d, key, 'DOES NOT APPLY', a.stderr[:200])
                    continue
                o['builds'] = sh('go build ./... && go build -tags verif ./...', cwd=WT).returncode == 0
                f, pk = suite()
                o['suite_failing_tests_with_change'] = [x for x in f if x not in base_fail]
                o['suite_same_as_baseline'] = f == base_fail
                # demonstration
                for dm in demos:
                    txt = open(dm).read()
                    pkgname = re.search(r'^package (\w+)', txt, re.M).group(1)
                    pkg = PKG.get(pkgname)
                    if pkg is None:
                        o['demo'] = 'package %s not known to this tool' % pkgname
                        continue
                    tests = re.findall(r'^func (Test\w+)\(', txt, re.M)
                    dst = os.path.join(WT, pkg, 'zz_seed_demo_test.go')
                    shutil.copy(dm, dst)
                    w = sh("go test -vet=off -count=1 -run '^(%s)$' %s 2>&1" % ('|'.join(tests), pkg), cwd=WT)
                    o['demo_fails_with_change'] = failing(w.stdout) or (['<test binary exit %d: %s>' % (w.returncode, (re.findall(r'^panic: .*', w.stdout, re.M) or ['no FAIL line'])[0][:120])] if w.returncode else [])
                    sh('git apply -R %s' % pt, cwd=WT)
                    wo = sh("go test -vet=off -count=1 -run '^(%s)$' %s 2>&1" % ('|'.join(tests), pkg), cwd=WT)
                    o['demo_fails_without_change'] = failing(wo.stdout)
                    o['demo_passes_without_change'] = wo.returncode == 0
                    if 'race' in (open(os.path.join(d, 'meta.json')).read().lower()) and not o['demo_fails_with_change']:
                        sh('git apply %s' % pt, cwd=WT)
                        w = sh("go test -vet=off -count=1 -race -run '^(%s)$' %s 2>&1" % ('|'.join(tests), pkg), cwd=WT)
                        o['demo_fails_with_change_under_race'] = failing(w.stdout) or ('DATA RACE' in w.stdout)
                        sh('git apply -R %s' % pt, cwd=WT)
                    os.remove(dst)
                    sh('git apply %s' % pt, cwd=WT)
                out[key] = o
                print(d, key, json.dumps(o)[:400])
            mp = os.path.join(d, 'meta.json')
            meta = json.load(open(mp)) if os.path.exists(mp) else {}
            meta['confirmed'] = out
            json.dump(meta, open(mp, 'w'), indent=1)
    finally:
        sh('git -C /repo worktree remove --force %s; rm -rf %s; git -C /repo worktree prune' % (WT, WT))
    return 0


if __name__ == '__main__':
    sys.exit(main())
