ENGINES = [
    {'name': 'tlc-meaning', 'path': 'spec/Meaning.tla', 'serves_properties': ['C01', 'C03', 'C04', 'C09'],
     'kind_free_text': 'TLC explores every step order of the coarse-grained declarative semantics per (workflow, outcome vector); result sets are the oracle'},
    {'name': 'trace-validate', 'path': 'spec/trace/EngineTrace.tla', 'serves_properties': ['C01', 'C02', 'C03', 'C04', 'C05', 'C07', 'C08', 'C09', 'C12', 'C15'],
     'kind_free_text': 'monitor-mode trace validation: recorded hook events of the real engine are applied to ExpectedDAG(WF) with the Dgraph operators; guards restate the listed properties'},
    {'name': 'harness', 'path': 'harness/', 'serves_properties': PROPS,
     'kind_free_text': 'Go harness overlaid into the engine module (-tags verif): scripted deployer + scripted ATP plugin, gates/noise schedule injection, ndjson traces'},
]
NOTES = 'bin/check <id> --tier quick|thorough; VERIF_SEED honoured; see DESIGN.md for which check catches which seeded change'
NA = {}
FAM = ('TLC computes the declarative meaning (Meaning.tla, all step orders) of every generated (workflow, outcome vector) and validates every recorded '
       'trace of the real engine event by event against ExpectedDAG(WF) + Dgraph.tla + the property guards of EngineTrace.tla; ')
chk('C02', MC, FAM + 'C02 guards: a node is evaluated only when the independent graph says all its dependencies are resolved, every value a stage or plugin receives equals the expression tree evaluated over what producers emitted.',
    TRUST, 'TLA+ trace validation (EngineTrace.tla monitor over ExpectedDAG + Dgraph.tla) of generated workflows under noise schedules', 'DESIGN 5 C02, 4.5, App. E')
chk('C03', MC, FAM + 'C03: the returned output id must be in the set of results Meaning.tla allows for the outcome vector (singleton for deterministic workflows), the output data must equal its expression tree over produced values, an error is required when no output is producible.',
    TRUST, 'TLC-computed declarative meaning (Meaning.tla) as oracle + TLA+ trace validation', 'DESIGN 5 C03, 3.1')
chk('C04', MC, FAM + 'C04: plugin code runs only after an accepted starting input, with enabling resolved to true and no stop condition fired before the execution was spawned; disabled steps report disabled.output (checked through the meaning of dependants).',
    TRUST, 'TLA+ trace validation (execution guards) + Meaning.tla result oracle over failing/disabled positions', 'DESIGN 5 C04')
chk('C08', MC, FAM + 'C08: every step output handed to the run loop is checked against the schema its lifecycle declares (harness-side Unserialize), internal bug: errors are violations.',
    TRUST, 'TLA+ trace validation with per-event schema conformance flags computed from the declared lifecycle schemas', 'DESIGN 5 C08')
chk('C15', MC, FAM + 'C15: wait-optional evaluated only after its source is decided and present iff produced; soft-optional present only with a produced source and never dropped when the source was resolved before the handler; one-of carries a produced option and the matching discriminator.',
    TRUST, 'TLA+ trace validation (TreeCheck tag rules in Workflow.tla) on tag-heavy generated workflows', 'DESIGN 5 C15')
chk('C01', MC, FAM + 'C01: exactly one Return per run, a second output or a run that does not return is a violation; a size sweep derived from the model counter-example (one failing step, N-1 never-ending siblings feeding one output, N up to 60) and fallback-detector scenarios run under a watchdog whose goroutine dump is classified (channel send under the run lock + caller in ForceClose).',
    TRUST + '; a watchdog verdict is a violation only for runs that did not return within 15 s on an idle 16-core machine', 'TLC meaning oracle + TLA+ trace validation + model-derived size sweep under watchdog', 'DESIGN 5 C01')
chk('C07', MC, FAM + 'C07: workflows whose expressions fail at run time (omitted optional input, index out of range, failing conversions, NaN, arithmetic faults, missing keys) and misbehaving steps (crash, undeclared data) must return an error; a Go panic in an engine goroutine or an evaluation failure that does not surface as a returned error is a violation.',
    TRUST, 'failure-kind enumeration executed on the real engine in child processes + TLA+ trace validation (evaluation failure must be followed by an error Return)', 'DESIGN 5 C07')
chk('C09', MC, FAM + 'C09: single-site stall sweep (every gate/hook point x step x occurrence, stall >= 80 ms > the detector retry budget) and random multi-site delays on workflows whose Meaning.tla result set is a singleton; the result must not change and the detector must not report "no more steps" while a step has unread input or a plugin executes.',
    TRUST + '; stall lengths are wall-clock sleeps at hook points', 'gate-driven schedule injection on the real engine judged by the TLC-computed meaning + TLA+ trace validation of detector verdicts', 'DESIGN 5 C09, 4.3')
chk('C05', MC, 'SchemaProbe.tla: TLC enumerates all 16 fault vectors of the parse-time schema probe with the invariant "deployed => closed at return" and every vector is replayed on the real LoadSchema through scripted connection faults; ' + FAM + 'C05: at every Return event all run-phase connections are closed and no step/execution goroutine is alive (success, error, crash, deploy failure, cancellation at assorted points), plus a goroutine census after return.',
    TRUST, 'TLC fault-vector enumeration replayed on the real code + TLA+ trace validation of resource bookkeeping at Return', 'DESIGN 5 C05')
chk('C06', MC, FAM + 'C06: cancellation is triggered at every hook/gate point of every step (before deploy, during deploy, waiting for input, running, finishing); the monitor requires that every plugin with a cancel handler executing when its context ended was signalled, none executes at Return, the result is an error or a declared output whose dependencies were produced; the measured return time must stay below grace + sum of closure timeouts + margin.',
    TRUST + '; the time bound uses wall-clock with a 2.5 s margin', 'gate-triggered cancellation sweep on the real engine + TLA+ trace validation', 'DESIGN 5 C06')
