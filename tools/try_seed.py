#!/usr/bin/env python3
"""tools/try_seed.py <patch.diff> <check id>... [--tier quick|thorough] [--seeds 1,2]
Applies a seeded change to /repo, runs the given checks, ALWAYS restores /repo, prints a summary."""
import subprocess
import sys


def sh(*a, **kw):
    return subprocess.run(a, capture_output=True, text=True, **kw)


def main():
    args = [a for a in sys.argv[1:] if not a.startswith('--')]
    tier = 'quick'
    seeds = ['1']
    for a in sys.argv[1:]:
        if a.startswith('--tier='):
            tier = a.split('=')[1]
        if a.startswith('--seeds='):
            seeds = a.split('=')[1].split(',')
    patch, checks = args[0], args[1:]
    st = sh('git', '-C', '/repo', 'status', '--porcelain').stdout.strip()
    if st:
        print('REFUSING: /repo is not clean:\n' + st)
        return 2
    ap = sh('git', '-C', '/repo', 'apply', patch)
    if ap.returncode != 0:
        print('patch does not apply:', ap.stderr)
        return 2
    summary = []
    try:
        b = sh('bash', '-c', 'cd /repo && GOFLAGS=-mod=mod GOPROXY=off GOSUMDB=off GOTOOLCHAIN=local go build ./... && GOTOOLCHAIN=local go build -tags verif ./...')
        if b.returncode != 0:
            print('does not build with the change:', b.stderr[-800:])
            return 2
        for c in checks:
            for s in seeds:
                p = sh('/verif/bin/check', c, '--tier', tier, '--seed', s, cwd='/verif')
                viol = [l for l in p.stdout.splitlines() if l.startswith('VIOLATION') or l.startswith('  rule=')]
                summary.append((c, s, p.returncode, viol[:6]))
                print('== %s seed %s exit %d' % (c, s, p.returncode))
                for l in (viol[:6] or p.stdout.splitlines()[-3:]):
                    print('   ' + l[:220])
    finally:
        sh('git', '-C', '/repo', 'checkout', '--', '.')
        sh('git', '-C', '/repo', 'clean', '-fdq')
    caught = [c for c, s, rc, v in summary if rc == 1]
    print('CAUGHT BY:', sorted(set(caught)) or 'nothing')
    return 0


if __name__ == '__main__':
    sys.exit(main())
