#!/usr/bin/env python3
"""tools/regress_seeds.py [--seed=N] [--only=prefix] [--out=file]
Regression over the kept seeded changes: for every seeded/<id>/ whose meta.json names the quick checks that catch it,
applies the patch to /repo, runs the FIRST of those checks at the quick tier, restores /repo, and reports whether the
change is still caught (exit 1 of the check with a VIOLATION line). Seeds whose patch no longer applies, or that a
later repair made harmless (meta: obsolete / not claimed), are listed separately. Never run while another check runs:
/repo is modified while a seed is applied."""
import json
import os
import subprocess
import sys

ROOT = os.path.dirname(os.path.dirname(os.path.abspath(__file__)))


def sh(*a, **kw):
    return subprocess.run(a, capture_output=True, text=True, **kw)


def main():
    seed = '1'
    only = ''
    out = None
    for a in sys.argv[1:]:
        if a.startswith('--seed='):
            seed = a.split('=')[1]
        if a.startswith('--only='):
            only = a.split('=')[1]
        if a.startswith('--out='):
            out = a.split('=')[1]
    if sh('git', '-C', '/repo', 'status', '--porcelain').stdout.strip():
        print('REFUSING: /repo is not clean')
        return 2
    res = {}
    for d in sorted(os.listdir(os.path.join(ROOT, 'seeded'))):
        sd = os.path.join(ROOT, 'seeded', d)
        mp = os.path.join(sd, 'meta.json')
        pp = os.path.join(sd, 'patch.diff')
        if not d.startswith(only) or not os.path.isfile(mp) or not os.path.isfile(pp):
            continue
        meta = json.load(open(mp))
        checks = meta.get('caught_by_quick_tier') or []
        if meta.get('obsolete') or not checks:
            res[d] = 'skipped (%s)' % ('obsolete: ' + str(meta.get('obsolete')) if meta.get('obsolete') else 'no quick check claims it')
            print(d, res[d], flush=True)
            continue
        if sh('git', '-C', '/repo', 'apply', pp).returncode != 0:
            res[d] = 'PATCH DOES NOT APPLY'
            print(d, res[d], flush=True)
            continue
        try:
            got = None
            for c in checks:
                p = sh(os.path.join(ROOT, 'bin', 'check'), c, '--tier', 'quick', '--seed', seed, cwd=ROOT)
                if p.returncode == 1 and 'VIOLATION property=' in p.stdout:
                    got = c
                    break
                if p.returncode == 2:
                    got = 'INCONCLUSIVE ' + c + ': ' + ' | '.join(p.stdout.splitlines()[-2:])[:200]
            res[d] = ('caught by ' + got) if got and not got.startswith('INCONCLUSIVE') else ('MISSED ' + (got or '') + ' (tried ' + ','.join(checks) + ')')
        finally:
            sh('git', '-C', '/repo', 'checkout', '--', '.')
            sh('git', '-C', '/repo', 'clean', '-fdq')
        print(d, res[d], flush=True)
    missed = [d for d, r in res.items() if r.startswith('MISSED') or r.startswith('PATCH')]
    print('SUMMARY: %d seeds, %d caught, %d skipped, %d missed/not applying' % (
        len(res), sum(r.startswith('caught') for r in res.values()), sum(r.startswith('skipped') for r in res.values()), len(missed)))
    if out:
        json.dump(res, open(out, 'w'), indent=1, sort_keys=True)
    return 1 if missed else 0


if __name__ == '__main__':
    sys.exit(main())
