#!/usr/bin/env python3
"""tools/regress_seeds.py [--seed=N] [--only=prefix] [--out=file] [--jobs=4]
Regression over the kept seeded changes: for every seeded/<id>/ whose meta.json names the quick checks that catch it,
applies the patch to a scratch worktree of /repo's HEAD (never to /repo), runs those checks at the quick tier against
that tree (VERIF_REPO / VERIF_OUT, see tools/try_seed_wt.py) until one reports a violation, and lists the changes that
are no longer caught.  Seeds whose patch no longer applies, or that a later repair made harmless (meta: obsolete / not
claimed), are listed separately.  Several trials run side by side."""
import concurrent.futures as cf
import json
import os
import shutil
import subprocess
import sys
import tempfile

ROOT = os.path.dirname(os.path.dirname(os.path.abspath(__file__)))
GO = 'GOFLAGS=-mod=mod GOPROXY=off GOSUMDB=off GOTOOLCHAIN=local'


def sh(*a, **kw):
    return subprocess.run(a, capture_output=True, text=True, **kw)


def trial(d, checks, seed):
    pp = os.path.join(ROOT, 'seeded', d, 'patch.diff')
    os.makedirs('/tmp/seedtry', exist_ok=True)
    base = tempfile.mkdtemp(prefix='r-', dir='/tmp/seedtry')
    wt = os.path.join(base, 'repo')
    try:
        if sh('git', '-C', '/repo', 'worktree', 'add', '-q', '--detach', wt, 'HEAD').returncode != 0:
            return 'INCONCLUSIVE cannot create a worktree'
        if sh('git', '-C', wt, 'apply', pp).returncode != 0:
            return 'PATCH DOES NOT APPLY'
        env = dict(os.environ, VERIF_REPO=wt, VERIF_OUT=os.path.join(base, 'out'))
        got, notes = None, []
        for c in checks:
            p = sh(os.path.join(ROOT, 'bin', 'check'), c, '--tier', 'quick', '--seed', seed, cwd=ROOT, env=env)
            if p.returncode == 1 and 'VIOLATION property=' in p.stdout:
                got = c
                break
            if p.returncode == 2:
                notes.append('INCONCLUSIVE ' + c + ': ' + ' | '.join(p.stdout.splitlines()[-2:])[:200])
        if got:
            return 'caught by ' + got
        return 'MISSED ' + '; '.join(notes) + ' (tried ' + ','.join(checks) + ')'
    finally:
        sh('git', '-C', '/repo', 'worktree', 'remove', '--force', wt)
        shutil.rmtree(base, ignore_errors=True)


def main():
    seed, only, out, jobs = '1', '', None, 4
    for a in sys.argv[1:]:
        if a.startswith('--seed='):
            seed = a.split('=')[1]
        if a.startswith('--only='):
            only = a.split('=')[1]
        if a.startswith('--out='):
            out = a.split('=')[1]
        if a.startswith('--jobs='):
            jobs = int(a.split('=')[1])
    res, todo = {}, []
    for d in sorted(os.listdir(os.path.join(ROOT, 'seeded'))):
        sd = os.path.join(ROOT, 'seeded', d)
        mp = os.path.join(sd, 'meta.json')
        if not d.startswith(only) or not os.path.isfile(mp) or not os.path.isfile(os.path.join(sd, 'patch.diff')):
            continue
        meta = json.load(open(mp))
        checks = meta.get('caught_by_quick_tier') or []
        if meta.get('obsolete') or not checks:
            res[d] = 'skipped (%s)' % ('obsolete: ' + str(meta.get('obsolete')) if meta.get('obsolete') else 'no quick check claims it')
            print(d, res[d], flush=True)
        else:
            todo.append((d, checks))
    with cf.ThreadPoolExecutor(max_workers=jobs) as ex:
        futs = {ex.submit(trial, d, checks, seed): d for d, checks in todo}
        for f in cf.as_completed(futs):
            d = futs[f]
            res[d] = f.result()
            print(d, res[d], flush=True)
    sh('git', '-C', '/repo', 'worktree', 'prune')
    missed = sorted(d for d, r in res.items() if not (r.startswith('caught') or r.startswith('skipped')))
    print('SUMMARY: %d seeds, %d caught, %d skipped, %d missed/not applying%s' % (
        len(res), sum(r.startswith('caught') for r in res.values()), sum(r.startswith('skipped') for r in res.values()), len(missed),
        (': ' + ', '.join(missed)) if missed else ''))
    if out:
        json.dump(res, open(out, 'w'), indent=1, sort_keys=True)
    return 1 if missed else 0


if __name__ == '__main__':
    sys.exit(main())
