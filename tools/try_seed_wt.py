#!/usr/bin/env python3
"""tools/try_seed_wt.py <patch.diff> <check id>... [--tier=quick|thorough] [--seeds=1,2]
Like tools/try_seed.py, but never touches /repo: the seeded change is applied to a scratch worktree of /repo's HEAD
(under /tmp/seedtry), the checks build THAT tree (VERIF_REPO) and write their evidence and replay files into the scratch
directory (VERIF_OUT).  Several trials can run side by side, and next to checks of the real tree."""
import os
import shutil
import subprocess
import sys
import tempfile


def sh(*a, **kw):
    return subprocess.run(a, capture_output=True, text=True, **kw)


def main():
    args = [a for a in sys.argv[1:] if not a.startswith('--')]
    tier, seeds = 'quick', ['1']
    for a in sys.argv[1:]:
        if a.startswith('--tier='):
            tier = a.split('=')[1]
        if a.startswith('--seeds='):
            seeds = a.split('=')[1].split(',')
    patch, checks = os.path.abspath(args[0]), args[1:]
    os.makedirs('/tmp/seedtry', exist_ok=True)
    base = tempfile.mkdtemp(prefix='t-', dir='/tmp/seedtry')
    wt = os.path.join(base, 'repo')
    rc = 0
    try:
        a = sh('git', '-C', '/repo', 'worktree', 'add', '-q', '--detach', wt, 'HEAD')
        if a.returncode != 0:
            print('cannot create the worktree:', a.stderr)
            return 2
        ap = sh('git', '-C', wt, 'apply', patch)
        if ap.returncode != 0:
            print('patch does not apply:', ap.stderr)
            return 2
        env = dict(os.environ, VERIF_REPO=wt, VERIF_OUT=os.path.join(base, 'out'))
        b = sh('bash', '-c', 'cd %s && GOFLAGS=-mod=mod GOPROXY=off GOSUMDB=off GOTOOLCHAIN=local go build ./... && GOFLAGS=-mod=mod GOPROXY=off GOSUMDB=off GOTOOLCHAIN=local go build -tags verif ./...' % wt)
        if b.returncode != 0:
            print('does not build with the change:', b.stderr[-800:])
            return 2
        caught = set()
        for c in checks:
            for s in seeds:
                p = sh('/verif/bin/check', c, '--tier', tier, '--seed', s, cwd='/verif', env=env)
                viol = [l for l in p.stdout.splitlines() if l.startswith('VIOLATION') or l.startswith('  rule=')]
                print('== %s seed %s exit %d' % (c, s, p.returncode))
                for l in (viol[:6] or p.stdout.splitlines()[-3:]):
                    print('   ' + l[:220])
                if p.returncode == 1:
                    caught.add(c)
        print('CAUGHT BY:', sorted(caught) or 'nothing')
    finally:
        sh('git', '-C', '/repo', 'worktree', 'remove', '--force', wt)
        shutil.rmtree(base, ignore_errors=True)
        sh('git', '-C', '/repo', 'worktree', 'prune')
    return rc


if __name__ == '__main__':
    sys.exit(main())
