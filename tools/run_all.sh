#!/bin/bash
# tools/run_all.sh <tier> <seed> : runs every registered check, prints one line per check
TIER=${1:-quick}; SEED=${2:-1}
cd /verif
for p in $(python3 -c "import json;print(' '.join(c['property_id'] for c in json.load(open('MANIFEST.json'))['checks']))"); do
  S=$(date +%s)
  OUT=$(bin/check $p --tier $TIER --seed $SEED 2>&1); RC=$?
  echo "$p rc=$RC $(( $(date +%s) - S ))s :: $(echo "$OUT" | grep -c '^VIOLATION') violations :: $(echo "$OUT" | grep '^VIOLATION\|^  rule\|^INCONCLUSIVE' | head -3 | cut -c1-160 | tr '\n' '|')"
done
