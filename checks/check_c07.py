"""C07: run-time evaluation failures and misbehaving steps end the run with an error, never a crash."""
import random

import family
import gen
import vlib
from vlib import fexpr, lit, ref, tmap, tlist


def fail_items(rng, n):
    """workflows whose expressions cannot be evaluated at run time, or whose steps misbehave"""
    items = []
    kinds = ['omitted-optional-input', 'index-out-of-range', 'failing-conversion', 'float-nan-to-int', 'bad-step-data',
             'arithmetic-on-strings', 'omitted-optional-in-step-input', 'missing-map-key', 'arithmetic-on-plugin-integers',
             'failing-conversion-in-wait-optional', 'failing-conversion-in-soft-optional', 'index-out-of-range-in-wait-optional']
    # kinds whose expression is certainly evaluated and certainly cannot be: the run must end with an error
    certain = {'omitted-optional-input', 'index-out-of-range', 'failing-conversion', 'missing-map-key',
               'failing-conversion-in-wait-optional', 'index-out-of-range-in-wait-optional'}
    # (a soft-optional expression is legitimately absent when its group node has not been processed by the time the
    #  consumer is evaluated, so for it only the monitor's rule applies: IF the evaluation failed, the run ends in an error)
    for i in range(n):
        kind = kinds[i % len(kinds)]
        wf = {'steps': {}, 'outputs': {}}
        oc = {'a': {'deploy': 'ok', 'enabled': True, 'start': 'ok', 'beh': 'success'}}
        script = {'a': {'exec': {'out': 'success', 'delay_ms': rng.choice([0, 2]), 'l': ['x', 'y'], 'n': 3}}}
        inp = {'x': 'xv', 'n': 5, 'flag': True}
        a_in = {'id': lit('a')}
        where = rng.choice(['output', 'step'])
        bad = None
        if kind == 'omitted-optional-input':
            inp = {'n': 5, 'flag': True}          # x omitted
            bad = fexpr('$.input.x', ['input.x'])
        elif kind == 'omitted-optional-in-step-input':
            inp = {'x': 'xv', 'flag': True}       # n omitted
            bad = fexpr('$.input.n', ['input.n'])
            where = 'step'
        elif kind == 'index-out-of-range':
            bad = fexpr('$.steps.a.outputs.success.l[5]', ['steps.a.outputs.success.l'])
        elif kind == 'failing-conversion':
            bad = fexpr('stringToInt($.steps.a.outputs.success.tok)', ['steps.a.outputs.success.tok'])
        elif kind in ('failing-conversion-in-wait-optional', 'failing-conversion-in-soft-optional'):
            # the optional dependency IS produced; only the conversion applied to it fails
            bad = {'t': 'opt', 'wait': 'wait' in kind, 'e': fexpr('stringToInt($.steps.a.outputs.success.tok)', ['steps.a.outputs.success.tok'])}
        elif kind == 'index-out-of-range-in-wait-optional':
            bad = {'t': 'opt', 'wait': True, 'e': fexpr('$.steps.a.outputs.success.l[7]', ['steps.a.outputs.success.l'])}
        elif kind == 'float-nan-to-int':
            bad = fexpr('floatToInt(stringToFloat("NaN"))', [])
        elif kind == 'arithmetic-on-strings':
            bad = fexpr('intToString($.steps.a.outputs.success.n / 0)', ['steps.a.outputs.success.n'])
        elif kind == 'arithmetic-on-plugin-integers':
            bad = fexpr('$.steps.a.outputs.success.n + 1', ['steps.a.outputs.success.n'])
        elif kind == 'missing-map-key':
            bad = fexpr('$.steps.a.outputs.success.l[$.input.n]', ['steps.a.outputs.success.l', 'input.n'])
        elif kind == 'bad-step-data':
            script['a']['exec']['bad_data'] = True
            oc['a']['beh'] = 'crash'
            bad = ref('steps.a.outputs.success.tok')
        wf['steps']['a'] = {'kind': 'plugin', 'pstep': 'work', 'fields': {'input': tmap(a_in)}}
        if where == 'step' and kind not in ('omitted-optional-in-step-input',):
            wf['steps']['b'] = {'kind': 'plugin', 'pstep': 'nowork', 'fields': {'input': tmap({'id': lit('b'), 'deps': tmap({'v': bad})})}}
            oc['b'] = {'deploy': 'ok', 'enabled': True, 'start': 'ok', 'beh': 'success'}
            wf['outputs']['success'] = tmap({'r': ref('steps.b.outputs.success.tok')})
        elif kind == 'omitted-optional-in-step-input':
            wf['steps']['b'] = {'kind': 'plugin', 'pstep': 'nowork', 'fields': {'input': tmap({'id': lit('b'), 'n': bad})}}
            oc['b'] = {'deploy': 'ok', 'enabled': True, 'start': 'ok', 'beh': 'success'}
            wf['outputs']['success'] = tmap({'r': ref('steps.b.outputs.success.tok')})
        else:
            wf['outputs']['success'] = tmap({'r': bad, 'ok': ref('steps.a.outputs.success.tok')})
        if rng.random() < 0.5:
            wf['outputs']['failure'] = tmap({'why': ref('steps.a.outputs.error.reason')})
        items.append({'wf': wf, 'oc': oc, 'script': script, 'input': inp, 'schedule': gen.noise_schedule(rng), 'kind': kind,
                      'nomeaning': True, 'must_error': kind in certain, 'at': kind})
    return items


def loop_items_absent(rng):
    """a loop whose items come from an optional expression that is absent in the run (the loop that would produce them is
    disabled): the required input of the consuming loop is missing at run time - an error, never a crash"""
    import check_c13
    items = []
    sub2 = {'input_schema': {'root': 'In2', 'objects': {'In2': {'id': 'In2', 'properties': {
                'tok': {'type': {'type_id': 'string'}, 'required': True}, 'n': {'type': {'type_id': 'integer'}, 'required': True}}}}},
            'steps': {'w2': {'kind': 'plugin', 'pstep': 'work', 'src': 'w2', 'fields': {'input': tmap({'id': ref('input.tok')})}}},
            'outputs': {'success': tmap({'tok': ref('steps.w2.outputs.success.tok')})}}
    for wait in (True, False):
        it = check_c13.loop_item(rng, 2, 1, ['success', 'success'])
        wf = it['wf']
        wf['steps']['loop']['fields']['enabled'] = ref('input.flag')
        wf['steps']['consumer'] = {'kind': 'foreach', 'workflow': 'sub2.yaml',
                                   'fields': {'items': {'t': 'opt', 'wait': wait, 'e': ref('steps.loop.outputs.success.data')}}}
        wf['outputs'] = {'success': tmap({'d': ref('steps.consumer.outputs.success.data')}), 'failure': tmap({'e': ref('steps.consumer.failed.error')})}
        it['subwfs']['sub2.yaml'] = sub2
        it['script']['w2'] = {'exec': {'out': 'success'}}
        it['input'] = {'x': 'x', 'n': 1, 'flag': False}
        it['oc'] = {}
        it.pop('expect_items', None)
        it.update(nomeaning=True, kind='loop-items-from-absent-%s-optional' % ('wait' if wait else 'soft'), must_error=wait, schedule=None)
        it['at'] = it['kind']
        items.append(it)
    return items


def run(ctx):
    prof = dict(max_steps=3, p_tag=0.1, engine_outputs=True, p_crash=0.2, p_deployfail=0.15, p_error=0.2)
    n = 24 if ctx.quick else 180
    items, _, _ = family.run_family_check(ctx, 'C07', n_quick=16, n_thorough=120, profile=prof, extra_items=lambda rng: fail_items(rng, n) + loop_items_absent(rng))
    import engine_check
    for it in items:
        res = it.get('_result')
        if not it.get('must_error') or not res or res.get('watchdog') or not res.get('runs'):
            continue
        got = engine_check.engine_outcome(res['runs'][0])
        if got != 'error':
            ctx.add('C07', 'unevaluable-expression-did-not-end-the-run-with-an-error', '%s: run returned output %s' % (it['kind'], got),
                    {'kind': 'scenario', 'item': {k: it[k] for k in ('wf', 'oc', 'script', 'input', 'schedule') if k in it}})
