"""C09: the result does not depend on how fast goroutines are scheduled (single-site stall sweep + random multi-site
delays on workflows whose meaning fixes one result)."""
import random

import family
import gen
from check_c01 import okoc
from vlib import lit, ref, tmap

FOREACH_GATES = ['foreach.enable.beforeRecv', 'foreach.execute.beforeTransition', 'foreach.execute.beforeRecv', 'foreach.item.beforeExecute', 'wf.handler.beforeLock', 'ev:SProv', 'ev:SSet']
GATES = ['wf.main.beforeKickoff', 'wf.main.beforeSelect', 'wf.handler.beforeLock', 'wf.failure.beforeLock', 'wf.det.beforeLock',
         'plugin.deploy.beforeTry', 'plugin.deploy.beforeWait', 'plugin.deploy.afterMiss', 'plugin.deploy.beforeDeploy', 'plugin.enable.beforeRecv',
         'plugin.enable.afterRecv', 'plugin.start.beforeRecv', 'plugin.start.beforeReadSchema', 'plugin.exec.afterResult',
         'plugin.run.beforeSelect', 'plugin.transition.before', 'x.deploy.run',
         'ev:SSet', 'ev:SSlot', 'ev:SProv', 'ev:HEnter', 'ev:Pop', 'ev:Provide', 'ev:SExec', 'ev:SConn', 'ev:Resolve']


# the random multi-site mode leaves out the gates of the known in-flight-notification window so that whatever it finds is new
MULTI_GATES = list(GATES)      # (the two handler gates used to be left out: they were the window of a known finding, repaired in 47905c3)


def shapes(rng):
    out = []
    # single step
    wf = {'steps': {'a': {'kind': 'plugin', 'pstep': 'work', 'fields': {'input': tmap({'id': lit('a')})}}},
          'outputs': {'success': tmap({'r': ref('steps.a.outputs.success.tok')})}}
    out.append((wf, {'a': okoc()}, {'a': {'exec': {'out': 'success', 'delay_ms': 2}}}, ['a']))
    # chain of two
    wf = {'steps': {'a': {'kind': 'plugin', 'pstep': 'work', 'fields': {'input': tmap({'id': lit('a')})}},
                    'b': {'kind': 'plugin', 'pstep': 'nowork', 'fields': {'input': tmap({'id': lit('b'), 'deps': tmap({'x': ref('steps.a.outputs.success.tok')})})}}},
          'outputs': {'success': tmap({'r': ref('steps.b.outputs.success.tok')}), 'failure': tmap({'why': ref('steps.a.outputs.error.reason')})}}
    out.append((wf, {'a': okoc(), 'b': okoc()}, {'a': {'exec': {'out': 'success', 'delay_ms': 3}}, 'b': {'exec': {'out': 'success'}}}, ['a', 'b']))
    # chain with error path
    out.append((wf, {'a': okoc(beh='error'), 'b': okoc()}, {'a': {'exec': {'out': 'error', 'delay_ms': 3}}, 'b': {'exec': {'out': 'success'}}}, ['a', 'b']))
    # two independent + disabled one
    wf = {'steps': {'a': {'kind': 'plugin', 'pstep': 'work', 'fields': {'input': tmap({'id': lit('a')})}},
                    'b': {'kind': 'plugin', 'pstep': 'work', 'fields': {'input': tmap({'id': lit('b')}), 'enabled': ref('input.flag')}}},
          'outputs': {'success': tmap({'r': ref('steps.a.outputs.success.tok'), 'd': ref('steps.b.disabled.output.message')})}}
    out.append((wf, {'a': okoc(), 'b': okoc(enabled=False)}, {'a': {'exec': {'out': 'success', 'delay_ms': 1}}, 'b': {}}, ['a', 'b']))
    # slow deployment of a while b finishes: a state that is wrong during the whole deployment is seen by the detector
    wf = {'steps': {'a': {'kind': 'plugin', 'pstep': 'work', 'fields': {'input': tmap({'id': lit('a')})}},
                    'b': {'kind': 'plugin', 'pstep': 'work', 'fields': {'input': tmap({'id': lit('b')})}}},
          'outputs': {'success': tmap({'r': ref('steps.a.outputs.success.tok'), 'q': ref('steps.b.outputs.success.tok')})}}
    out.append((wf, {'a': okoc(), 'b': okoc()}, {'a': {'deploy': {'delay_ms': 150}, 'exec': {'out': 'success'}}, 'b': {'exec': {'out': 'success', 'delay_ms': 110}}}, ['a', 'b']))
    return out


DEPLOY_GATES = ['plugin.deploy.beforeTry', 'plugin.deploy.beforeWait', 'plugin.deploy.afterMiss', 'plugin.deploy.beforeDeploy', 'x.deploy.run', 'wf.main.beforeKickoff']


def extra(ctx):
    def f(rng):
        items = []
        sh = shapes(rng)
        use = (sh[:2] + [sh[-1]]) if ctx.quick else sh
        nths = [1, 3] if ctx.quick else [1, 2, 3, 4, 5, 6, 8]
        for wf, oc, script, steps in use:
            inp = {'x': 'x', 'n': 1, 'flag': False}
            for gate in (GATES if (not ctx.quick or wf is not sh[-1][0]) else DEPLOY_GATES):
                targets = steps if (gate.startswith('plugin.') or gate.startswith('ev:S') or gate in ('wf.handler.beforeLock', 'wf.failure.beforeLock', 'x.deploy.run')) else ['']
                for st in targets[:1] if ctx.quick else targets:
                    for nth in nths:
                        sch = {'stalls': [{'point': gate, 'step': st, 'nth': nth, 'ms': rng.choice([120, 200])}]}
                        items.append({'wf': wf, 'oc': oc, 'script': script, 'input': inp, 'schedule': sch, 'extra': {'timeout_ms': 15000},
                                      'stall': '%s@%s#%d' % (gate, st, nth)})
        # a loop step that gets its items after it entered its execute stage, delayed at its own synchronisation points
        import check_c13
        for gate in FOREACH_GATES:
            for nth in ([1] if ctx.quick else [1, 2, 3]):
                it = check_c13.loop_item(rng, 2, 2, ['success', 'success'], delays=[2, 2], after_ms=40)
                it.pop('expect_items', None)
                it['schedule'] = {'stalls': [{'point': gate, 'step': 'loop', 'nth': nth, 'ms': rng.choice([120, 200])}]}
                it['stall'] = '%s@loop#%d' % (gate, nth)
                it['want'] = ['success']
                items.append(it)
        # two-site schedules for the slow-deployment shape: the kick-off is held back so that the step's first look at its
        # deploy input misses, then the step is held between that miss and publishing "waiting" while the kick-off provides
        wf, oc, script, steps = sh[-1]
        for st in steps:
            for kick, hold in ([(30, 80)] if ctx.quick else [(10, 40), (30, 80), (30, 150), (60, 120)]):
                sch = {'stalls': [{'point': 'wf.main.beforeKickoff', 'step': '', 'nth': 1, 'ms': kick},
                                  {'point': 'plugin.deploy.beforeWait', 'step': st, 'nth': 1, 'ms': hold}]}
                items.append({'wf': wf, 'oc': oc, 'script': script, 'input': {'x': 'x', 'n': 1, 'flag': False}, 'schedule': sch,
                              'extra': {'timeout_ms': 15000}, 'stall': 'wf.main.beforeKickoff+plugin.deploy.beforeWait@%s#1' % st})
        # three sites (Engine.tla, chain2/fan2: DetectorSoundModuloInFlight with DeployWaitChecked = FALSE): the first look
        # misses, the kick-off provides while the step is between the miss and its state update, then the step is held
        # after the update with its input sitting in the channel while the other step finishes and arms the detector
        for st in steps:
            for kick, mid, hold in ([(30, 60, 200)] if ctx.quick else [(30, 60, 200), (10, 30, 120), (30, 60, 400), (50, 100, 250)]):
                sch = {'stalls': [{'point': 'wf.main.beforeKickoff', 'step': '', 'nth': 1, 'ms': kick},
                                  {'point': 'plugin.deploy.beforeWait', 'step': st, 'nth': 1, 'ms': mid},
                                  {'point': 'plugin.deploy.afterMiss', 'step': st, 'nth': 1, 'ms': hold}]}
                items.append({'wf': wf, 'oc': oc, 'script': script, 'input': {'x': 'x', 'n': 1, 'flag': False}, 'schedule': sch,
                              'extra': {'timeout_ms': 15000}, 'stall': 'wf.main.beforeKickoff+plugin.deploy.beforeWait+plugin.deploy.afterMiss@%s#1' % st})
        # random multi-site delays
        for k in range(6 if ctx.quick else 200):
            wf, oc, script, steps = rng.choice(sh)
            sch = {'stalls': [{'point': rng.choice(MULTI_GATES), 'step': rng.choice(steps + ['']), 'nth': rng.randint(1, 3), 'ms': rng.choice([15, 45, 90])}
                              for _ in range(rng.randint(2, 4))],
                   'noise_seed': rng.randint(1, 1 << 30), 'noise_max_us': 500, 'noise_pct': 30}
            items.append({'wf': wf, 'oc': oc, 'script': script, 'input': {'x': 'x', 'n': 1, 'flag': False}, 'schedule': sch,
                          'extra': {'timeout_ms': 15000}, 'stall': 'multi'})
        return items
    return f


def run(ctx):
    import engine_model
    engine_model.model_part(ctx, 'C09')
    import check_c06
    engine_model.strict_part(ctx, n_quick=24, n_thorough=600, gates=GATES, points=check_c06.POINTS)
    prof = dict(max_steps=3, p_tag=0.0, p_error=0.2, p_enabled=0.3)
    def detail(f, it):
        if f['prop'] == 'C09' and it.get('stall'):
            return '%s [stall %s]' % (f['detail'], it['stall'].split('#')[0])
        return f['detail']
    items, findings, stats = family.run_family_check(ctx, 'C09', n_quick=6, n_thorough=60, profile=prof, extra_items=extra(ctx), detail_fn=detail)
    # a result that differs from the (singleton) meaning under a stall is schedule dependence: report it under C09 too
    for f in findings:
        it = items[f['item']]
        if f['prop'] == 'C03' and f['rule'] == 'result-differs-from-declarative-meaning' and it.get('stall'):
            rp = {'kind': 'scenario', 'item': {k: it[k] for k in ('wf', 'oc', 'script', 'input', 'schedule', 'extra') if k in it}}
            ctx.add('C09', 'result-depends-on-schedule', '%s [stall %s]' % (f['detail'][:120], it['stall'].split('#')[0]), rp)
