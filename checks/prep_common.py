"""Shared by C10 and C16: corruptions of abstract workflows, running Prepare.tla and the real Prepare, canonical dumps."""
import copy
import json
import os
import re
import subprocess

import gen
import vlib
from vlib import lit, ref, tmap, opt

TYPEMAP = {'and': 'and', 'or': 'or', 'completion-and': 'cand', 'optional': 'opt', 'obviated': 'obv'}


def canon_dump(d):
    """engine dump -> (set of nodes, set of (m, n, type))"""
    edges = set()
    for e in d['edges']:
        m = re.match(r'(.*) <- (.*) : (.*)$', e)
        edges.add((m.group(1), m.group(2), TYPEMAP.get(m.group(3), m.group(3))))
    return set(d['nodes']), edges


def corruptions(rng, wf):
    """single-point corruptions of a valid abstract workflow: (kind, wf')"""
    out = []
    ids = [s for s in wf['steps'] if wf['steps'][s]['kind'] == 'plugin']      # (loop steps are left as they are)

    def clone():
        return copy.deepcopy(wf)

    def deps_of(w, s):
        inp = w['steps'][s]['fields']['input']['kids']
        if 'deps' not in inp:
            inp['deps'] = tmap({})
        return inp['deps']['kids']
    # back edge: a cycle through two steps (or a self reference)
    w = clone()
    if len(ids) >= 2:
        i, j = sorted(rng.sample(range(len(ids)), 2))
        deps_of(w, ids[j])['fwd'] = ref('steps.%s.outputs.success.tok' % ids[i])
        deps_of(w, ids[i])['back'] = ref('steps.%s.outputs.success.tok' % ids[j])
    else:
        deps_of(w, ids[0])['back'] = ref('steps.%s.outputs.success.tok' % ids[0])
    out.append(('back-edge', w))
    w = clone()
    deps_of(w, ids[-1])['ghost'] = ref('steps.ghost.outputs.success.tok')
    out.append(('renamed-step', w))
    w = clone()
    deps_of(w, ids[-1])['nooutput'] = ref('steps.%s.outputs.nosuch.tok' % ids[0])
    out.append(('wrong-output', w))
    w = clone()
    deps_of(w, ids[-1])['nostage'] = ref('steps.%s.nostage.success' % ids[0])
    out.append(('wrong-stage', w))
    w = clone()
    deps_of(w, ids[-1])['nofield'] = ref('steps.%s.outputs.success.nofield' % ids[0])
    out.append(('wrong-field', w))
    w = clone()
    w['outputs']['success']['kids']['noinput'] = ref('input.nosuch')
    out.append(('wrong-input-field', w))
    w = clone()
    w['steps'][ids[0]]['fields']['input']['kids']['n'] = lit('abc')
    out.append(('literal-type-int', w))
    w = clone()
    w['steps'][ids[0]]['fields']['input']['kids']['b'] = lit('maybe')
    out.append(('literal-type-bool', w))
    w = clone()
    w['steps'][ids[0]]['fields']['input']['kids']['l'] = lit('scalar')
    out.append(('literal-type-list', w))
    w = clone()
    w['steps'][ids[0]]['fields']['input']['kids']['s'] = lit({'a': 'b'})
    out.append(('literal-type-map', w))
    w = clone()
    del w['steps'][ids[0]]['fields']['input']['kids']['id']
    out.append(('missing-required', w))
    # a stop condition on a step whose plugin has no cancel signal handler
    w = copy.deepcopy(wf)
    w['steps'][ids[-1]]['pstep'] = 'nowork'
    w['steps'][ids[-1]]['fields']['stop_if'] = ref('input.flag') if len(ids) < 2 else ref('steps.%s.outputs.success.tok' % ids[0])
    out.append(('stop-condition-without-cancel-handler', w))
    w = clone()
    w['steps'][ids[0]]['fields']['input']['kids']['zzz'] = lit(1)
    out.append(('unknown-field', w))
    if len(ids) >= 2:
        w = clone()
        w['steps'][ids[-1]]['fields']['input']['kids']['n'] = ref('steps.%s.outputs.success.tok' % ids[0])
        out.append(('ref-type-mismatch', w))
        for wait in (True, False):
            w = clone()
            w['steps'][ids[-1]]['fields']['input']['kids']['n'] = opt('steps.%s.outputs.success.tok' % ids[0], wait)
            out.append(('optional-ref-type-mismatch-%s' % ('wait' if wait else 'soft'), w))
        w = clone()
        w['steps'][ids[-1]]['fields']['input']['kids']['n'] = opt('steps.%s.outputs.success.n' % ids[0], True)
        out.append(('valid-optional-ref', w))
        w = clone()
        w['steps'][ids[-1]]['fields']['input']['kids']['deps'] = tmap(dict(deps_of(w, ids[-1]), g=opt('steps.%s.outputs.success' % ids[0], False)))
        w['steps'][ids[-1]]['fields']['wait_for'] = tmap({'deps': tmap({'g': opt('steps.%s.outputs.alt' % ids[0], True)})})
        out.append(('group-collision', w))
    for kind, expr in (('root-reference', '$'), ('short-reference-steps', '$.steps'), ('short-reference-step', '$.steps.%s' % ids[0])):
        w = clone()
        w['steps'][ids[-1]]['fields']['wait_for'] = {'t': 'ref', 'refs': ['<' + kind + '>'], 'mode': 'opaque', 'src': 'nil', 'sub': [], 'expr': expr, 'ty': 'any'}
        out.append((kind, w))
    # valid variations that must stay accepted
    w = clone()
    w['steps'][ids[0]]['fields']['input']['kids']['n'] = lit(5)
    w['steps'][ids[0]]['fields']['input']['kids']['b'] = lit(True)
    w['steps'][ids[0]]['fields']['input']['kids']['l'] = lit(['a', 'b'])
    out.append(('valid-literals', w))
    return out


def overlapping_reference_shapes():
    """workflows in which ONE node refers to the same producer at several granularities under different keys (a whole
    stage, one of its outputs, a field of that output; through input, wait_for and the output tree): every reference
    is a dependency of its own, whatever order the keys are visited in"""
    from vlib import tlist
    out = []
    a = {'kind': 'plugin', 'pstep': 'work', 'fields': {'input': tmap({'id': lit('a')})}}
    for variant in range(4):
        bf = {'input': tmap({'id': lit('b'), 'deps': tmap({'tok': ref('steps.a.outputs.success.tok'), 'obj': ref('steps.a.outputs.success')})})}
        if variant in (0, 2):
            bf['wait_for'] = ref('steps.a.outputs')
        if variant in (1, 2):
            bf['input']['kids']['deps']['kids']['stage'] = ref('steps.a.outputs')
        if variant == 3:
            bf['wait_for'] = tmap({'w1': ref('steps.a.starting'), 'w2': ref('steps.a.starting.started'), 'w3': ref('steps.a.outputs.success.n')})
        if variant in (1, 3):
            # ONE expression reading two different nodes of the same step (the one that resolves first is named first)
            from vlib import fexpr
            bf['input']['kids']['deps']['kids']['both'] = fexpr('$.steps.a.enabling.resolved.enabled && $.steps.a.outputs.success.tok != ""',
                                                                ['steps.a.enabling.resolved.enabled', 'steps.a.outputs.success.tok'])
        wf = {'steps': {'a': a, 'b': {'kind': 'plugin', 'pstep': 'work', 'fields': bf}},
              'outputs': {'success': tmap({'whole': ref('steps.a.outputs'), 'one': ref('steps.a.outputs.success'), 'field': ref('steps.a.outputs.success.tok'),
                                           'b': ref('steps.b.outputs.success.tok')}),
                          'failure': tmap({'stage': ref('steps.a.outputs'), 'why': ref('steps.a.outputs.error.reason')})}}
        out.append(wf)
    # the same expression standing alone: nothing else connects the consumer to the producer's later node
    from vlib import fexpr
    for first, second in [('steps.a.enabling.resolved.enabled', 'steps.a.outputs.success.tok'), ('steps.a.enabling.resolved.enabled', 'steps.a.outputs.error.reason')]:
        e = fexpr('boolToString($.%s) + $.%s' % (first, second), [first, second])
        out.append({'steps': {'a': a, 'b': {'kind': 'plugin', 'pstep': 'work', 'fields': {'input': tmap({'id': lit('b'), 'deps': tmap({'both': e})})}}},
                    'outputs': {'success': tmap({'b': ref('steps.b.outputs.success.tok')}), 'direct': tmap({'both': e})}})
    return out


def invalid_next_to_any_field_shapes():
    """ill-formed steps that ALSO carry a present field of type any (wait_for) in the same stage: the verdict on the
    faulty field must not depend on the order in which the fields of the stage are looked at. All of these are invalid."""
    out = []
    a = {'kind': 'plugin', 'pstep': 'work', 'fields': {'input': tmap({'id': lit('a')})}}
    faults = [('int-from-string-ref', lambda k: k.__setitem__('n', ref('steps.a.outputs.success.tok'))),
              ('int-literal', lambda k: k.__setitem__('n', lit('abc'))),
              ('missing-required', lambda k: k.__delitem__('id')),
              ('unknown-field', lambda k: k.__setitem__('zzz', lit(1)))]
    for name, f in faults:
        kids = {'id': lit('b')}
        f(kids)
        b = {'kind': 'plugin', 'pstep': 'work', 'fields': {'input': tmap(kids), 'wait_for': ref('steps.a.outputs.success'), 'closure_wait_timeout': lit(100)}}
        out.append((name, {'steps': {'a': a, 'b': b}, 'outputs': {'success': tmap({'b': ref('steps.b.outputs.success.tok')})}}))
    return out


def discriminator_clash_shapes():
    """a one-of whose discriminator is named like a field the alternative objects already have (in the workflow's output tree, also inside a list): ill-formed, to be refused - not to crash the preparation. The last one is the control:
    the same one-of with a discriminator that clashes with nothing"""
    from vlib import oneof, tlist
    out = []
    a = {'kind': 'plugin', 'pstep': 'work', 'fields': {'input': tmap({'id': lit('a')})}}
    for disc in ('tok', 'n', 'kind'):
        mk = lambda: oneof(disc, {'ok': ref('steps.a.outputs.success'), 'other': ref('steps.a.outputs.alt')})
        out.append(('output:' + disc, {'steps': {'a': a}, 'outputs': {'success': tmap({'x': mk()})}}))
        out.append(('output-in-list:' + disc, {'steps': {'a': a}, 'outputs': {'success': tmap({'l': tlist([tmap({'x': mk()})])})}}))
    return out


def self_cycle_shapes():
    """a step that needs its own result (through its input, wait_for, enabled or its deployment configuration), alone in
    the workflow and next to an unrelated step: a cycle of length one - invalid"""
    from vlib import fexpr
    out = []
    for field in ('input', 'wait_for', 'enabled', 'deploy'):
        for alone in (True, False):
            f = {'input': tmap({'id': lit('a')})}
            if field == 'input':
                f['input'] = tmap({'id': lit('a'), 'deps': tmap({'me': ref('steps.a.outputs.success.tok')})})
            elif field == 'wait_for':
                f['wait_for'] = ref('steps.a.outputs.success')
            elif field == 'enabled':
                f['enabled'] = fexpr('$.steps.a.outputs.success.tok != ""', ['steps.a.outputs.success.tok'])
            else:
                f['deploy'] = tmap({'deployer_name': lit('scripted'), 'tag': ref('steps.a.outputs.success.tok')})
            steps = {'a': {'kind': 'plugin', 'pstep': 'work', 'fields': f}}
            if not alone:
                steps['z'] = {'kind': 'plugin', 'pstep': 'work', 'fields': {'input': tmap({'id': lit('z')})}}
            out.append(('self-cycle-through-%s%s' % (field, '' if alone else '-next-to-another-step'),
                        {'steps': steps, 'outputs': {'success': tmap({'a': ref('steps.a.outputs.success.tok')})}}))
    return out


def group_collision_shapes():
    """two tagged values at the same path below two fields of one stage: their dependency groups would be one node.
    Invalid - every time, whatever order the fields are visited in"""
    from vlib import opt
    out = []
    a = {'kind': 'plugin', 'pstep': 'work', 'fields': {'input': tmap({'id': lit('a')})}}
    for w1, w2 in ((True, False), (False, True), (True, True)):
        b = {'kind': 'plugin', 'pstep': 'work', 'fields': {
            'input': tmap({'id': lit('b'), 'deps': tmap({'g': opt('steps.a.outputs.success', w1)})}),
            'wait_for': tmap({'deps': tmap({'g': opt('steps.a.outputs.alt', w2)})})}}
        out.append(('group-collision-%s-%s' % (w1, w2), {'steps': {'a': a, 'b': b}, 'outputs': {'success': tmap({'b': ref('steps.b.outputs.success.tok')})}}))
    return out


def list_reference_shapes():
    """lists mixing literals and references at every position (in a step input and in the output tree): a reference is a
    dependency wherever in the list it stands and whatever stands before it"""
    from vlib import tlist, opt
    out = []
    a = {'kind': 'plugin', 'pstep': 'work', 'fields': {'input': tmap({'id': lit('a')})}}
    r = lambda: ref('steps.a.outputs.success.tok')
    for name, mk in [('lit-ref', lambda: tlist([lit('z'), r()])), ('lit-lit-ref', lambda: tlist([lit('z'), lit('y'), r()])),
                     ('ref-lit', lambda: tlist([r(), lit('z')])), ('map-map', lambda: tlist([tmap({'x': lit('z')}), tmap({'x': r()})])),
                     ('nested', lambda: tlist([tlist([lit('z')]), tlist([lit('y'), r()])]))]:
        # (the items of a list have one type: lists mixing strings with numbers or objects are refused, rightly)
        b = {'kind': 'plugin', 'pstep': 'work', 'fields': {'input': tmap({'id': lit('b'), 'deps': tmap({'l': mk()})})}}
        out.append({'steps': {'a': a, 'b': b},
                    'outputs': {'success': tmap({'b': ref('steps.b.outputs.success.tok'), 'l': mk()})}})
    return out


def any_typed_consumer_shapes():
    """every output object the engine generates for a plugin step and for a loop step, referred to where a value of any
    type is taken (wait_for of another step, the workflow's output tree): all of these are well-formed workflows"""
    out = []
    a = {'kind': 'plugin', 'pstep': 'work', 'fields': {'input': tmap({'id': lit('a')})}}
    for r in ('steps.a.crashed.error', 'steps.a.deploy_failed.error', 'steps.a.closed.result', 'steps.a.disabled.output',
              'steps.a.enabling.resolved', 'steps.a.starting.started', 'steps.a.outputs.success', 'steps.a.outputs.error',
              'steps.a.crashed', 'steps.a.deploy_failed', 'steps.a.closed', 'steps.a.disabled'):
        b = {'kind': 'plugin', 'pstep': 'work', 'fields': {'input': tmap({'id': lit('b')}), 'wait_for': ref(r)}}
        out.append({'steps': {'a': a, 'b': b},
                    'outputs': {'success': tmap({'b': ref('steps.b.outputs.success.tok')}), 'seen': tmap({'v': ref(r)})}})
    return out


def prepare_oracle(ctx, wfs, timeout_s=900):
    """Prepare.tla over a batch: returns list of {'accepted': bool, 'nodes': set, 'edges': set} (None on failure) and stats"""
    d = os.path.join(ctx.work, 'prep-%d' % len(os.listdir(ctx.work)))
    os.makedirs(d)
    path = os.path.join(d, 'pcases.json')
    json.dump([{'wf': vlib.strip_wf(w)} for w in wfs], open(path, 'w'))
    cfg = 'SPECIFICATION Spec\nCONSTANT CaseFile = "pcases.json"\nINVARIANT Confluent\nCONSTRAINT Export\nCHECK_DEADLOCK FALSE\n'
    rc, out, td = vlib.tlc(vlib.SPEC, 'Prepare', cfg, ctx.work, timeout_s=timeout_s, workers=min(8, vlib.NCPU), copy=[path], java_opts='-Xss64m')
    vlib.rmwork(td)
    res = [None] * len(wfs)
    terminals = [set() for _ in wfs]
    for line in out.splitlines():
        m = re.match(r'<<"PREPARE", (\d+), (TRUE|FALSE), "(.*)">>$', line.strip())
        if m:
            i = int(m.group(1)) - 1
            acc = m.group(2) == 'TRUE'
            body = json.loads(m.group(3).encode().decode('unicode_escape')) if acc else {}
            nodes = frozenset(body.get('nodes', []))
            edges = frozenset(tuple(e) for e in body.get('edges', []))
            terminals[i].add((acc, nodes, edges))
            res[i] = {'accepted': acc, 'nodes': set(nodes), 'edges': set(edges), 'req': {k: set(v) for k, v in (body.get('req') or {}).items()}}
    ok = rc == 0 and all(r is not None for r in res) and 'Invariant Confluent is violated' not in out
    conf = all(len(t) == 1 for t in terminals)
    return ok, res, vlib.tlc_stats(out), out, conf


def real_prepare(binary, wf, work, name, repeat=1, script=None):
    d = os.path.join(work, name)
    os.makedirs(d, exist_ok=True)
    sc = {'files': {'workflow.yaml': vlib.render_workflow(wf)}, 'repeat': repeat, 'result_out': os.path.join(d, 'r.json'), 'script': script or {}}
    for fname, sub in (wf.get('_subwfs') or {}).items():
        sc['files'][fname] = vlib.render_workflow(sub)
    json.dump(sc, open(os.path.join(d, 'sc.json'), 'w'))
    try:
        p = subprocess.run([binary, 'prep', os.path.join(d, 'sc.json')], capture_output=True, text=True, timeout=120, env=vlib.GOENV)
        code, err = p.returncode, p.stderr
    except subprocess.TimeoutExpired:
        code, err = 124, 'timeout'
    res = None
    try:
        res = json.load(open(sc['result_out']))
    except Exception:
        pass
    return {'code': code, 'stderr': err, 'result': res, 'scenario': sc}
