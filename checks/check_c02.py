"""C02: steps start only after their dependencies, with the data those produced."""
import family


def loop_shapes(ctx):
    """values that travel into the runs a loop step starts for its items: the item itself, and a deployment configuration
    computed from it (the prepared sub-workflow is shared by all items: each item run deploys with ITS configuration)"""
    def f(rng):
        import check_c13
        items = [check_c13.per_item_deploy_item(rng, 3, 1), check_c13.per_item_deploy_item(rng, 4, 2), check_c13.computed_items_item(rng)]
        if not ctx.quick:
            items += [check_c13.per_item_deploy_item(rng, 6, 3), check_c13.nested_loop_item(rng, 2, ['success', 'success'])]
        return items
    return f


def run(ctx):
    family.run_family_check(ctx, 'C02', n_quick=40, n_thorough=400, extra_items=loop_shapes(ctx))
