"""C11: parsing any files yields a workflow or an error, never a crash or endless loop."""
import base64
import concurrent.futures as cf
import copy
import json
import os
import random
import re
import subprocess

import engine_check
import vlib


class Raw(str):
    """YAML text inserted verbatim at a value position"""


def emit(v, ind=0):
    pad = '  ' * ind
    if isinstance(v, Raw):
        return ' ' + str(v) + '\n'
    if isinstance(v, dict):
        if not v:
            return ' {}\n'
        out = '\n'
        for k, x in v.items():
            key = str(k) if isinstance(k, Raw) else json.dumps(str(k))
            out += '%s%s:%s' % (pad, key, emit(x, ind + 1))
        return out
    if isinstance(v, list):
        if not v:
            return ' []\n'
        out = '\n'
        for x in v:
            out += '%s-%s' % (pad, emit(x, ind + 1))
        return out
    if v is None:
        return ' ~\n'
    if isinstance(v, bool):
        return ' %s\n' % ('true' if v else 'false')
    if isinstance(v, (int, float)):
        return ' %s\n' % v
    return ' %s\n' % json.dumps(v)


def doc(v):
    return emit(v, 0).lstrip('\n')


def base_workflow():
    return {'version': 'v0.2.0',
            'input': {'root': 'RootObject', 'objects': {'RootObject': {'id': 'RootObject', 'properties': {
                'x': {'type': {'type_id': 'string'}, 'required': False},
                'items': {'type': {'type_id': 'list', 'items': {'type_id': 'ref', 'id': 'Item'}}, 'required': False}}},
                'Item': {'id': 'Item', 'properties': {'id': {'type': {'type_id': 'string'}}}}}},
            'steps': {'a': {'plugin': {'src': 'a', 'deployment_type': 'scripted'}, 'step': 'work',
                            'input': {'id': 'a', 's': Raw('!expr $.input.x'), 'deps': {'k': [1, Raw('!expr $.input.x')]}},
                            'enabled': Raw('!expr $.input.x == "x"')},
                      'loop': {'kind': 'foreach', 'workflow': 'sub.yaml', 'items': [{'id': 'i0'}], 'parallelism': 1,
                               'wait_for': Raw('!expr $.steps.a.outputs')}},
            'outputs': {'success': {'r': Raw('!expr $.steps.a.outputs.success.tok'), 'l': Raw('!ordisabled $.steps.loop.outputs.success'),
                                    'o': Raw('!wait-optional $.steps.a.outputs.alt')}}}


def base_sub():
    return {'version': 'v0.2.0',
            'input': {'root': 'SubIn', 'objects': {'SubIn': {'id': 'SubIn', 'properties': {'id': {'type': {'type_id': 'string'}}}}}},
            'steps': {'w': {'plugin': {'src': 'w', 'deployment_type': 'scripted'}, 'step': 'work', 'input': {'id': Raw('!expr $.input.id')}}},
            'outputs': {'success': {'tok': Raw('!expr $.steps.w.outputs.success.tok')}}}


SHAPES = {
    'scalar': Raw('zzz'), 'int': 5, 'emptystr': '', 'null': None, 'map': {'k': 'v'}, 'seq': [1, 2], 'emptymap': {}, 'emptyseq': [],
    'expr': Raw('!expr $.input.x'), 'badexpr': Raw('!expr "$.("'), 'exprmap': Raw('!expr {a: 1}'), 'oneofscalar': Raw('!oneof x'),
    'oneofmap': Raw('!oneof {discriminator: d, one_of: {a: !expr $.input}}'), 'oneofempty': Raw('!oneof {discriminator: d, one_of: {}}'),
    'waitopt': Raw('!wait-optional $.input.x'), 'softoptmap': Raw('!soft-optional {a: 1}'), 'ordisabledbad': Raw('!ordisabled $.input.x'),
    'alias': Raw('*anch'), 'selfseq': Raw('&selfa [*selfa]'), 'selfmap': Raw('&selfm {k: *selfm}'), 'selfnested': Raw('&selfn {a: {b: [1, *selfn]}}'), 'nonscalarkey': Raw('{? [x, y] : 1}'), 'unknowntag': Raw('!bogus x'), 'binarytag': Raw('!!binary aGVsbG8='),
    # malformed expression texts (the expression parser is part of what a workflow file reaches)
    'danglingop': Raw('!expr $.input.x =='), 'unbalanced': Raw('!expr ($.input.x'), 'emptyexpr': Raw('!expr ""'), 'opsonly': Raw('!expr "+"'),
    'openfunc': Raw('!expr foo('), 'trailingdot': Raw('!expr $.input.'), 'openbracket': Raw('!expr "$.input.x["'), 'openstring': Raw("!expr '$.input.x == \"abc'"),
    'deepparen': Raw('!expr "' + '(' * 40 + '1' + ')' * 40 + '"'), 'danglingnot': Raw('!expr "!"'), 'doubledot': Raw('!expr $..x'),
    'rootexpr': Raw('!expr $'), 'deepseq': Raw('[' * 60 + ']' * 60), 'mergekey': Raw('{<<: {a: 1}}'), 'REMOVED': None,
}


def paths_of(v, prefix=()):
    out = []
    if isinstance(v, dict):
        for k, x in v.items():
            out.append(prefix + (k,))
            out += paths_of(x, prefix + (k,))
    elif isinstance(v, list):
        for i, x in enumerate(v):
            out.append(prefix + (i,))
            out += paths_of(x, prefix + (i,))
    return out


def replace_at(v, path, shape):
    v = copy.deepcopy(v)
    cur = v
    for k in path[:-1]:
        cur = cur[k]
    if shape == 'REMOVED':
        if isinstance(cur, dict):
            del cur[path[-1]]
        else:
            del cur[path[-1]]
    else:
        cur[path[-1]] = copy.deepcopy(SHAPES[shape])
    return v


def pstr(p):
    return '/'.join(str(x) for x in p)


def run_parse(binary, work, name, files, main='workflow.yaml', input_bytes=b'x: x\n', run_input=True, timeout_ms=15000, supply_all=False):
    d = os.path.join(work, name)
    os.makedirs(d, exist_ok=True)
    sc = {'files_b64': {k: base64.b64encode(v if isinstance(v, bytes) else v.encode()).decode() for k, v in files.items()},
          'main': main, 'input_b64': base64.b64encode(input_bytes).decode(), 'dir': os.path.join(d, 'ctx'), 'run_input': run_input,
          'timeout_ms': timeout_ms, 'result_out': os.path.join(d, 'r.json'), 'max_stack_mb': 64, 'supply_all': supply_all}
    json.dump(sc, open(os.path.join(d, 'sc.json'), 'w'))
    try:
        p = subprocess.run([binary, 'parse', os.path.join(d, 'sc.json')], capture_output=True, text=True, timeout=timeout_ms / 1000 + 30, env=vlib.GOENV, errors='replace')
        code, err = p.returncode, p.stderr
    except subprocess.TimeoutExpired:
        code, err = 124, 'outer timeout'
    res = None
    try:
        res = json.load(open(sc['result_out']))
    except Exception:
        pass
    return {'code': code, 'stderr': err if len(err) < 12000 else err[:8000] + '\n...\n' + err[-3000:], 'result': res, 'scenario': sc}


def judge(ctx, r, what):
    rp = {'kind': 'parse-scenario', 'how': 'verifh parse <scenario>', 'scenario': r['scenario'], 'case': what}
    if r['code'] == 0 and r['result'] is not None:
        res = r['result']
        if ('parsed' in res or 'parse_err' in res) and ('parsed2' in res or 'parse2_err' in res) and bool(res.get('parsed')) != bool(res.get('parsed2')):
            # the driver parses the same files a second time in the same process
            ctx.add('C11', 'second-parse-of-the-same-files-gives-another-verdict', '%s: first %s, second %s' % (
                what, 'accepted' if res.get('parsed') else 'rejected', 'accepted' if res.get('parsed2') else 'rejected'), rp)
        return True
    if r['result'] is not None and r['result'].get('watchdog'):
        ctx.add('C11', 'parsing-did-not-return', what, rp)
        return False
    if engine_check.engine_panic(r['stderr'] or '') or 'stack overflow' in (r['stderr'] or '') or 'goroutine stack exceeds' in (r['stderr'] or ''):
        ctx.add('C11', 'process-crashed-while-parsing', '%s: %s' % (what, engine_check.first_panic_line(r['stderr'])), rp)
        return False
    if r['code'] == 124:
        ctx.add('C11', 'parsing-did-not-return', what + ' (outer timeout)', rp)
        return False
    ctx.inconclusive('parse driver failed for %s: %s' % (what, (r['stderr'] or '')[-300:]))
    return False


def run(ctx):
    rng = random.Random(ctx.seed * 9973 + 11)
    wf, sub = base_workflow(), base_sub()
    wpaths = paths_of(wf)
    inp = {'x': 'x', 'items': [{'id': 'i0'}]}
    ipaths = paths_of(inp)
    files = ['main', 'a', 'b']
    spec = {'paths': ['wf:' + pstr(p) for p in wpaths] + ['sub:' + pstr(p) for p in paths_of(sub)] + ['in:' + pstr(p) for p in ipaths],
            'shapes': sorted(SHAPES), 'files': files}
    cpath = os.path.join(ctx.work, 'parsecases.json')
    json.dump(spec, open(cpath, 'w'))
    rc, out, td = vlib.tlc(vlib.SPEC, 'Parse', 'SPECIFICATION Spec\nCONSTANT CaseFile = "parsecases.json"\nCHECK_DEADLOCK FALSE\n', ctx.work, timeout_s=600, workers=1, copy=[cpath], java_opts='-Xss64m')
    vlib.rmwork(td)
    st = vlib.tlc_stats(out)
    corr = re.findall(r'<<"CORRUPT", "([^"]*)", "([^"]*)">>', out)
    graphs = []
    for line in out.splitlines():
        m = re.match(r'<<"GRAPH", "(.*)", (TRUE|FALSE), (\d+)>>$', line.strip())
        if m:
            graphs.append((json.loads(m.group(1).encode().decode('unicode_escape')), m.group(2) == 'TRUE', int(m.group(3))))
    if rc != 0 or not corr or not graphs:
        ctx.inconclusive('Parse.tla failed: ' + out[-1500:])
        return
    ctx.cov(states=st.get('distinct', 0), transitions=st.get('generated', 0), corruption_space=len(corr), reference_graphs=len(graphs))
    binary = ctx.binary()
    pathmap = {('wf:' + pstr(p)): ('wf', p) for p in wpaths}
    pathmap.update({('sub:' + pstr(p)): ('sub', p) for p in paths_of(sub)})
    pathmap.update({('in:' + pstr(p)): ('in', p) for p in ipaths})
    cases = list(corr)
    if ctx.quick:
        rng.shuffle(cases)
        # every shape at least once, every path at least once, then random pairs
        keep, seen_s, seen_p = [], set(), set()
        for c in cases:
            if c[1] not in seen_s or c[0] not in seen_p:
                keep.append(c)
                seen_s.add(c[1])
                seen_p.add(c[0])
        prio = [c for c in corr if c[0] in ('wf:steps/loop/workflow', 'wf:steps/loop/kind', 'wf:steps/a/plugin', 'wf:steps/loop', 'wf:steps', 'wf:input/objects/RootObject/id', 'in:items',
                                            'wf:input/root', 'wf:input/objects', 'wf:input/objects/Item', 'wf:input/objects/RootObject', 'sub:input/root', 'sub:input/objects/SubIn',
                                            'wf:steps/a/enabled', 'sub:steps/w/input/id', 'wf:outputs/success/r',
                                            'wf:input/objects/RootObject/properties/items/type/items/id')]
        cases = keep + prio + cases[:30]
    jobs = []
    anchor = 'anchors: &anch v0\n'     # makes the alias shape resolvable
    for ps, shape in cases:
        which, p = pathmap[ps]
        w2, s2, i2 = wf, sub, inp
        if which == 'wf':
            w2 = replace_at(wf, p, shape)
        elif which == 'sub':
            s2 = replace_at(sub, p, shape)
        else:
            i2 = replace_at(inp, p, shape)
        head = anchor if shape == 'alias' else ''
        fl = {'workflow.yaml': (head if which == 'wf' else '') + doc(w2), 'sub.yaml': (head if which == 'sub' else '') + doc(s2)}
        ib = ((head if which == 'in' else '') + doc(i2)).encode()
        jobs.append(('%s=%s' % (ps, shape), fl, ib))
    # whole-file and byte-level cases
    good = doc(wf).encode()
    whole = {'empty': b'', 'comment-only': b'# nothing\n', 'garbage': bytes(rng.randrange(256) for _ in range(300)), 'multi-doc': good + b'---\n' + good,
             'tab-indent': b'steps:\n\tx: 1\n', 'just-scalar': b'hello\n', 'just-seq': b'- a\n- b\n', 'nul-bytes': good[:40] + b'\x00\x00' + good[40:],
             'unterminated': b'steps: {a: [1, 2\n', 'bom': b'\xef\xbb\xbf' + good, 'huge-key': (b'k' * 70000) + b': 1\n',
             'alias-cycle-input': b'version: v0.2.0\ninput: &in {root: RootObject, objects: {RootObject: {id: RootObject, properties: {}}}, again: *in}\nsteps: {}\noutputs: {success: {}}\n',
             'alias-cycle-seq': b'&a [*a]\n', 'alias-chain': b'a: &x [1, 2]\nb: &y [*x, *x]\nc: [*y, *y]\n',
             'deep-map': b''.join(b'  ' * i + b'a:\n' for i in range(200)) + b'  ' * 200 + b'x\n', 'anchor-bomb': b'a: &a [x, x]\nb: &b [*a, *a]\nc: &c [*b, *b]\nd: [*c, *c]\n'}
    for k, b in whole.items():
        jobs.append(('whole-workflow=' + k, {'workflow.yaml': b, 'sub.yaml': doc(sub)}, b'x: x\n'))
        jobs.append(('whole-input=' + k, {'workflow.yaml': doc(wf), 'sub.yaml': doc(sub)}, b))
        jobs.append(('whole-sub=' + k, {'workflow.yaml': doc(wf), 'sub.yaml': b}, b'x: x\n'))
    nmut = 30 if ctx.quick else 1500
    for k in range(nmut):
        b = bytearray(good)
        for _ in range(rng.randint(1, 4)):
            op = rng.choice(['flip', 'trunc', 'dup', 'ins', 'del'])
            pos = rng.randrange(len(b)) if b else 0
            if op == 'flip' and b:
                b[pos] = rng.randrange(256)
            elif op == 'trunc':
                b = b[:pos]
            elif op == 'dup':
                b = b[:pos] + b[max(0, pos - 30):pos] + b[pos:]
            elif op == 'ins':
                b = b[:pos] + bytes(rng.choice(b'{}[]:,&*!|>-?#%@`"\'\n\t ') for _ in range(rng.randint(1, 5))) + b[pos:]
            elif op == 'del' and b:
                b = b[:pos] + b[pos + rng.randint(1, 8):]
        target = rng.choice(['workflow.yaml', 'input', 'sub.yaml'])
        if target == 'input':
            jobs.append(('bytes-input#%d' % k, {'workflow.yaml': doc(wf), 'sub.yaml': doc(sub)}, bytes(b[:200])))
        else:
            fl = {'workflow.yaml': doc(wf), 'sub.yaml': doc(sub)}
            fl[target] = bytes(b)
            jobs.append(('bytes-%s#%d' % (target, k), fl, b'x: x\n'))
    # reference graphs from Parse.tla: file f refers to the files in g[f] through loop steps
    gjobs = []
    # quick: every graph whose discovery must succeed (they are few, and they are the ones in which a wrongly
    # resolved path shows) plus a sample of the others
    valid = [x for x in graphs if x[1]]
    rest = [x for x in graphs if not x[1]]
    gsel = graphs if not ctx.quick else valid + rng.sample(rest, min(len(rest), 30))
    # where each referenced file lives: the specification fixes only that every reference, whichever file contains it,
    # is relative to the context directory.  Layouts: all nested files in sub/, all in the root, or mixed.
    layouts = [lambda f: 'sub/%s.yaml' % f, lambda f: '%s.yaml' % f, lambda f: ('sub/%s.yaml' if f < 'b' else 'deep/er/%s.yaml') % f]
    gsel = [(g, okv, nreach, layouts[(k if ctx.quick else kk) % len(layouts)]) for k, (g, okv, nreach) in enumerate(gsel)
            for kk in ([0] if ctx.quick else range(len(layouts)))]
    for g, okv, nreach, loc in gsel:
        fl = {}
        for f, refs in g.items():
            w = base_sub() if f != 'main' else {'version': 'v0.2.0', 'input': base_sub()['input'], 'steps': {}, 'outputs': {'success': {'x': Raw('!expr $.input.id')}}}
            if f != 'main':
                w = copy.deepcopy(w)
            for k, tgt in enumerate(refs):
                w['steps']['l%d' % k] = {'kind': 'foreach', 'workflow': loc(tgt) if tgt != 'main' else 'workflow.yaml', 'items': [{'id': 'i'}]}
            fl['workflow.yaml' if f == 'main' else loc(f)] = doc(w)
        gjobs.append((g, okv, fl))
    with cf.ThreadPoolExecutor(max_workers=max(2, vlib.NCPU - 2)) as ex:
        res1 = list(ex.map(lambda a: run_parse(binary, ctx.work, 'c%05d' % a[0], a[1][1], input_bytes=a[1][2]), enumerate(jobs)))
        res2 = list(ex.map(lambda a: run_parse(binary, ctx.work, 'g%05d' % a[0], a[1][2], run_input=False), enumerate(gjobs)))
        # the same reference graphs with a caller that hands Parse every file of the directory (not only the main workflow)
        res3 = list(ex.map(lambda a: run_parse(binary, ctx.work, 'h%05d' % a[0], a[1][2], run_input=False, supply_all=True), enumerate(gjobs)))
    returned = 0
    parsed = 0
    for (what, fl, ib), r in zip(jobs, res1):
        if judge(ctx, r, what):
            returned += 1
            parsed += 1 if r['result'].get('parsed') else 0
    for (g, okv, fl), r, supplied in [(j, r, False) for j, r in zip(gjobs, res2)] + [(j, r, True) for j, r in zip(gjobs, res3)]:
        what = 'reference-graph %s%s' % (json.dumps(g, sort_keys=True), ' (all files supplied by the caller)' if supplied else '')
        if not judge(ctx, r, what):
            continue
        returned += 1
        rp = {'kind': 'parse-scenario', 'how': 'verifh parse <scenario>', 'scenario': r['scenario'], 'case': what}
        got_ok = bool(r['result'].get('parsed'))
        err = r['result'].get('parse_err', '') + r['result'].get('load_err', '')
        if okv and not got_ok and ('no such file' in err or 'not found' in err):
            ctx.add('C11', 'existing-sub-workflow-file-reported-missing', '%s: %s' % (what, err[:120]), rp)
        if not okv and got_ok:
            ctx.add('C11', 'missing-or-circular-sub-workflow-accepted', what, rp)
    ctx.level = 'exploration'
    ctx.cov(evaluations=len(jobs) + len(gjobs), distinct_nontrivial=len({j[0].split('#')[0] for j in jobs}) + len(gjobs), returned=returned, accepted_as_workflow=parsed,
            rule='Parse.tla enumerates (key path x YAML shape) corruptions of a valid workflow / sub-workflow / input and all sub-workflow reference graphs over 3 files with their discovery verdict; plus whole-file cases and seeded byte-level mutations; every case runs engine.Parse (+Run) in a child process with a 64 MB stack cap and a watchdog',
            samples=[jobs[0][0], jobs[len(jobs) // 2][0], 'reference-graph ' + json.dumps(gjobs[0][0])])
    ctx.assumptions = ['the quantifier "all byte strings" is sampled (seeded mutations), the structural space is enumerated by the specification',
                       'a crash is a Go panic / fatal error whose panicking goroutine runs engine code; stack exhaustion is detected with a 64 MB stack cap']
