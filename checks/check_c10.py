"""C10: preparation builds exactly the dependency graph the workflow text implies (translation validation:
ExpectedDAG(wf) / PrepareVerdict(wf) from the TLA+ side against what the real Prepare built)."""
import concurrent.futures as cf
import json
import random

import engine_check
import gen
import prep_common as pc
import vlib


def run(ctx):
    rng = random.Random(ctx.seed * 7907 + 10)
    nbase = 10 if ctx.quick else 150
    wfs, kinds = [], []
    for i in range(nbase):
        prof = dict(max_steps=rng.choice([1, 2, 3, 4]), p_tag=rng.choice([0.0, 0.3, 0.6]), p_waitfor=0.3, p_deployexpr=0.2, p_enabled=0.3, engine_outputs=True, p_sum=0.8, p_loop=0.25)
        wf, oc, script, inp = gen.gen_workflow(rng, prof)
        wfs.append(wf)
        kinds.append('valid')
        cs = pc.corruptions(rng, wf)
        if ctx.quick:
            cs = rng.sample(cs, min(len(cs), 5)) if i >= 3 else cs
        for k, w in cs:
            wfs.append(w)
            kinds.append(k)
    for w in pc.overlapping_reference_shapes():
        for _ in range(3):          # prepared several times: Go's map order changes between preparations
            wfs.append(w)
            kinds.append('valid-overlapping-references')
    for name, w in pc.invalid_next_to_any_field_shapes():
        for _ in range(12 if ctx.quick else 40):     # the order the engine looks at a stage's fields in changes between preparations
            wfs.append(w)
            kinds.append('invalid-next-to-an-any-typed-field:' + name)
    for name, w in pc.self_cycle_shapes():
        wfs.append(w)
        kinds.append('invalid-' + name)
    for name, w in pc.group_collision_shapes():
        for _ in range(6 if ctx.quick else 20):
            wfs.append(w)
            kinds.append('invalid-' + name)
    for name, w in pc.discriminator_clash_shapes():
        wfs.append(w)
        kinds.append('one-of-discriminator:' + name)
    for w in pc.list_reference_shapes():
        wfs.append(w)
        kinds.append('valid-list-of-literals-and-references')
    for w in pc.any_typed_consumer_shapes():
        wfs.append(w)
        kinds.append('valid-any-typed-consumer-of-an-engine-output')
    ok, oracle, st, out, conf = pc.prepare_oracle(ctx, wfs)
    if not ok:
        ctx.inconclusive('Prepare.tla failed or its confluence invariant is violated in the model: ' + out[-1500:])
        return
    ctx.cov(states=st.get('distinct', 0), transitions=st.get('generated', 0))
    binary = ctx.binary()
    with cf.ThreadPoolExecutor(max_workers=max(2, vlib.NCPU - 2)) as ex:
        reals = list(ex.map(lambda a: pc.real_prepare(binary, a[1], ctx.work, 'p%04d' % a[0]), enumerate(wfs)))
    agree = 0
    byk = {}
    for i, (wf, kind, orc, r) in enumerate(zip(wfs, kinds, oracle, reals)):
        rp = {'kind': 'prepare-scenario', 'how': 'verifh prep <scenario>', 'scenario': r['scenario'], 'corruption': kind}
        if r['result'] is None:
            if engine_check.engine_panic(r['stderr'] or ''):
                ctx.add('C10', 'preparation-crashed', '%s: %s' % (kind, engine_check.first_panic_line(r['stderr'])), rp)
            else:
                ctx.inconclusive('prep driver died: ' + (r['stderr'] or '')[-300:])
            continue
        d = r['result']['dumps'][0]
        accepted = not d['err']
        byk.setdefault(kind, [0, 0])
        byk[kind][0 if accepted else 1] += 1
        if accepted != orc['accepted']:
            ctx.add('C10', 'accepted-although-the-text-implies-rejection' if accepted else 'rejected-although-the-text-is-well-formed',
                    '%s%s' % (kind, '' if accepted else ': ' + d['err'][:140]), rp)
            continue
        if not accepted:
            agree += 1
            continue
        nodes, edges = pc.canon_dump(d)
        missing = orc['edges'] - edges
        extra = edges - orc['edges']
        if nodes != orc['nodes']:
            ctx.add('C10', 'graph-nodes-differ', '%s: missing %s extra %s' % (kind, sorted(orc['nodes'] - nodes)[:3], sorted(nodes - orc['nodes'])[:3]), rp)
        elif missing or extra:
            ctx.add('C10', 'graph-edges-differ', '%s: missing %s extra %s' % (kind, sorted(missing)[:3], sorted(extra)[:3]), rp)
        else:
            agree += 1
        # the inferred output schemas: a top-level key is optional exactly when its value carries an optional tag
        if not wf.get('output_schema'):
            for oid, want in (orc.get('req') or {}).items():
                got = set((d.get('output_required') or {}).get(oid, []))
                if got != want:
                    ctx.add('C10', 'inferred-output-schema-requires-the-wrong-keys', '%s: output %s requires %s, the text implies %s' % (kind, oid, sorted(got), sorted(want)), rp)
    ctx.level = 'translation_validation'
    ctx.cov(programs=len(wfs), disagreements_checked=len(wfs) - agree, evaluations=len(wfs), distinct_nontrivial=len({json.dumps(vlib.strip_wf(w), sort_keys=True) for w in wfs}),
            verdicts_by_kind={k: {'accepted': v[0], 'rejected': v[1]} for k, v in sorted(byk.items())},
            rule='seeded generated workflows (1-4 steps, all reference kinds and tags) and their single-point corruptions; Prepare.tla explores every connection order and exports ExpectedDAG/verdict; compared with the real DAG()',
            samples=[{'corruption': kinds[1], 'workflow_yaml': vlib.render_workflow(wfs[1]), 'oracle_accepted': oracle[1]['accepted']}])
    ctx.assumptions = ['type compatibility is judged for literal/reference kinds whose verdict is clear-cut (Prepare.tla Compat table)', 'scripted plugin schema (id,s,n,b,f,l,deps)']
