"""C19: invalid input starts nothing; steps see the schema-normalised input."""
import json
import os
import random
import re

import engine_check
import family
import gen
import vlib
from vlib import lit, ref, tmap

KINDS = {'s': ['absent', 'str', 'numstr', 'list', 'map'], 'i': ['absent', 'num', 'neg', 'notnum', 'boolish', 'list'],
         'b': ['absent', 'true', 'false', 'yes', 'off', 'five', 'word', 'list'], 'l': ['absent', 'empty', 'nums', 'mixed', 'scalar'],
         'o': ['absent', 'min', 'full', 'noreq', 'extra', 'scalar', 'badm'], 'x': ['absent', 'present'],
         'p': ['absent', 're', 'badre'],
         'm': ['absent', 'ints', 'badkey']}   # a map with integer keys (YAML gives them as they are written; the normal form has integers)      # a regular-expression pattern (its unserialized form is a compiled expression)
YAMLV = {'s': {'str': 'hello', 'numstr': 12, 'list': ['a'], 'map': {'a': 'b'}},
         'i': {'num': 5, 'neg': -3, 'notnum': 'abc', 'boolish': True, 'list': [1]},
         'b': {'true': True, 'false': False, 'yes': 'yes', 'off': 'off', 'five': 5, 'word': 'abc', 'list': [True]},
         'l': {'empty': [], 'nums': [1, 2], 'mixed': [1, 'x'], 'scalar': 3},
         'o': {'min': {'k': 'v'}, 'full': {'k': 'v', 'm': 4}, 'noreq': {'m': 4}, 'extra': {'k': 'v', 'zzz': 1}, 'scalar': 'str', 'badm': {'k': 'v', 'm': 'abc'}},
         'x': {'present': 'surplus'}, 'p': {'re': '^ab+c$', 'badre': 'a(b'},
         'm': {'ints': {80: 'http', 443: 'https'}, 'badkey': {'abc': 'x'}}}
SCHEMA = {'root': 'RootObject', 'objects': {
    'RootObject': {'id': 'RootObject', 'properties': {
        's': {'type': {'type_id': 'string'}, 'required': True},
        'i': {'type': {'type_id': 'integer'}, 'required': False, 'default': '7'},
        'b': {'type': {'type_id': 'bool'}, 'required': False},
        'l': {'type': {'type_id': 'list', 'items': {'type_id': 'integer'}}, 'required': False},
        'p': {'type': {'type_id': 'pattern'}, 'required': False},
        'm': {'type': {'type_id': 'map', 'keys': {'type_id': 'integer'}, 'values': {'type_id': 'string'}}, 'required': False},
        'o': {'type': {'type_id': 'ref', 'id': 'Nested'}, 'required': False}}},
    'Nested': {'id': 'Nested', 'properties': {
        'k': {'type': {'type_id': 'string'}, 'required': True},
        'm': {'type': {'type_id': 'integer'}, 'required': False, 'default': '1'}}}}}


def workflow():
    return {'input_schema': SCHEMA,
            'steps': {'a': {'kind': 'plugin', 'pstep': 'work', 'fields': {'input': tmap({'id': lit('a'), 'deps': tmap({'all': ref('input')})})}},
                      'b': {'kind': 'plugin', 'pstep': 'nowork', 'fields': {'input': tmap({'id': lit('b'), 'deps': tmap({'i': ref('input.i'), 's': ref('input.s'), 'whole': ref('input'), 'a': ref('steps.a.outputs.success.tok')})})}}},
            'outputs': {'success': tmap({'all': ref('input'), 'i': ref('input.i'), 'b': ref('steps.b.outputs.success.tok')})}}


def workflow_lookup():
    """the same, plus an expression that looks a value up in the integer-keyed map by an integer key (used for the documents
    that give the map)"""
    from vlib import fexpr
    wf = workflow()
    wf['outputs']['success']['kids']['k80'] = fexpr('$.input.m[80]', ['input'])
    wf['steps']['b']['fields']['input']['kids']['deps']['kids']['k443'] = fexpr('$.input.m[443]', ['input'])
    return wf


EMPTY_SCHEMA = {'root': 'RootObject', 'objects': {'RootObject': {'id': 'RootObject', 'properties': {}}}}


def workflow_empty():
    """a workflow whose input object declares no property: the only valid input document is the empty map"""
    return {'input_schema': EMPTY_SCHEMA,
            'steps': {'a': {'kind': 'plugin', 'pstep': 'work', 'fields': {'input': tmap({'id': lit('a')})}}},
            'outputs': {'success': tmap({'r': ref('steps.a.outputs.success.tok')})}}


def doc_yaml(d):
    if d.get('w') == 'list':
        return '- a\n- b\n'
    if d.get('w') == 'scalar':
        return 'hello\n'
    v = {}
    for f, k in d.items():
        if f in ('w', 'schema') or f.startswith('_'):
            continue
        if k != 'absent':
            v['zz_surplus' if f == 'x' else f] = YAMLV[f][k]
    return vlib.render_value(v, 0).lstrip('\n') if v else '{}\n'


def typed_wf(wf):
    """typed mode: literal leaves are strings"""
    import copy
    s = copy.deepcopy(vlib.strip_wf(wf))

    def walk(t):
        if t['t'] == 'lit':
            for lf in t['leaves']:
                lf['v'] = 's:' + lf['v']
        elif t['t'] == 'map':
            for x in t['kids'].values():
                walk(x)
        elif t['t'] == 'list':
            for x in t['kids']:
                walk(x)
    for st in s['steps'].values():
        for t in st['fields'].values():
            walk(t)
    for t in s['outputs'].values():
        walk(t)
    return s


def type_leaves(evn):
    for e in evn:
        for key in ('data', 'input'):
            if isinstance(e.get(key), list):
                e[key] = [{'p': x['p'], 'v': '%s:%s' % (x.get('t', 's'), x['v'])} for x in e[key]]
    return evn


def run(ctx):
    rng = random.Random(ctx.seed * 65537 + 19)
    n = 60 if ctx.quick else 1500
    docs = []
    seen = set()
    # all single-field deviations from a valid base document, then random combinations
    base = {'s': 'str', 'i': 'num', 'b': 'true', 'l': 'nums', 'o': 'full', 'x': 'absent', 'p': 're', 'm': 'absent', 'w': 'map', 'schema': 'full'}
    for f, ks in KINDS.items():
        for k in ks:
            docs.append(dict(base, **{f: k}))
    docs += [dict(base, w='list'), dict(base, w='scalar')]
    # documents that give as little as possible, in already-canonical form (strings only): every default must still be filled in
    mini = dict(base, i='absent', b='absent', l='absent', o='absent', p='absent', m='absent')
    docs += [dict(mini), dict(mini, s='numstr'), dict(mini, o='min'), dict(mini, o='full'), dict(mini, l='empty'), dict(mini, b='true'), dict(mini, i='num')]
    # the schema without properties: the empty map, one surplus key of each kind, and non-map documents
    ebase = {'s': 'absent', 'i': 'absent', 'b': 'absent', 'l': 'absent', 'o': 'absent', 'x': 'absent', 'p': 'absent', 'm': 'absent', 'w': 'map', 'schema': 'empty'}
    docs += [dict(ebase), dict(ebase, x='present'), dict(ebase, s='str'), dict(ebase, i='num'), dict(ebase, l='nums'), dict(ebase, o='min'),
             dict(ebase, w='list'), dict(ebase, w='scalar')]
    while len(docs) < n:
        docs.append(dict({f: rng.choice(ks) if rng.random() < 0.35 else base[f] for f, ks in KINDS.items()}, w='map', schema='full'))
    docs = [d for d in docs if not (json.dumps(d, sort_keys=True) in seen or seen.add(json.dumps(d, sort_keys=True)))]
    # oracle
    dpath = os.path.join(ctx.work, 'docs.json')
    json.dump(docs, open(dpath, 'w'))
    rc, out, td = vlib.tlc(vlib.SPEC, 'InputNorm', 'SPECIFICATION Spec\nCONSTANT CaseFile = "docs.json"\nCHECK_DEADLOCK FALSE\n', ctx.work, timeout_s=600, workers=1, copy=[dpath])
    vlib.rmwork(td)
    oracle = {}
    for line in out.splitlines():
        m = re.match(r'<<"INPUT", (\d+), (TRUE|FALSE), "(.*)">>$', line.strip())
        if m:
            oracle[int(m.group(1)) - 1] = (m.group(2) == 'TRUE', json.loads(m.group(3).encode().decode('unicode_escape')))
    if rc != 0 or len(oracle) != len(docs):
        ctx.inconclusive('InputNorm.tla failed: ' + out[-1500:])
        return
    st = vlib.tlc_stats(out)
    ctx.cov(states=st.get('distinct', 0), transitions=st.get('generated', 0))
    wfs = {'full': workflow(), 'empty': workflow_empty(), 'full+lookup': workflow_lookup()}
    for d in docs:
        d['_wf'] = 'full+lookup' if d['schema'] == 'full' and d.get('m') == 'ints' else d['schema']
    binary = ctx.binary()
    scs = []
    for d in docs:
        wf = wfs[d['_wf']]
        sc = gen.make_scenario(wf, {}, {}, gen.noise_schedule(rng), timeout_ms=20000)
        sc['engine'] = True
        sc['runs'] = [{'input_yaml': doc_yaml(d)}]
        scs.append(sc)
    results = vlib.run_scenarios(binary, scs, ctx.work)
    cases, owner = [], []
    nvalid = 0
    for i, (d, r) in enumerate(zip(docs, results)):
        res = r['result']
        valid, norm = oracle[i]
        rp = {'kind': 'engine-scenario', 'how': 'verifh run <scenario> (engine mode)', 'scenario': r['scenario'], 'doc': d}
        if res is None or r['code'] != 0:
            if engine_check.engine_panic(r['stderr'] or ''):
                # a valid document that brings the engine down is a valid input that was not honoured
                ctx.add('C19' if valid else 'C11', 'process-crashed-on-input', engine_check.first_panic_line(r['stderr']), rp)
            else:
                ctx.inconclusive('harness died: ' + (r['stderr'] or '')[-300:])
            continue
        if res.get('prepare_err'):
            ctx.inconclusive('workflow rejected: ' + res['prepare_err'][:300])
            continue
        rr = res['runs'][0]
        evs = vlib.read_trace(r['trace'])
        deployed = [e for e in evs if e['ev'] == 'XDeployBegin' and e.get('phase') == 'run']
        wf = wfs[d['_wf']]
        tag = ','.join('%s=%s' % (f, k) for f, k in sorted(d.items()) if not f.startswith('_') and k != base[f]) or 'base'
        if not valid:
            if not rr['is_err']:
                ctx.add('C19', 'invalid-input-accepted', tag, rp)
            if deployed:
                ctx.add('C19', 'plugin-deployed-for-invalid-input', tag, rp)
            continue
        nvalid += 1
        if rr['is_err']:
            ctx.add('C19', 'valid-input-refused', '%s: %s' % (tag, rr['err'][:120]), rp)
            continue
        runs, objrun = vlib.split_runs(evs)
        ost = vlib.obj_steps(evs)
        for ru in runs:
            if ru['parent'] is None:
                evn = type_leaves(vlib.norm_events(ru['events'], ost))
                cases.append({'wf': typed_wf(wf), 'input': norm, 'noreturn': False, 'subs': {}, 'expectItems': {}, 'declPar': {}, 'closure': {}, 'subLiveAtReturn': 0, 'pure': False, 'events': evn})
                owner.append((i, tag, rp))
    v, tst, fails = vlib.validate_cases_parallel(cases, ctx.work)
    for bi, o in fails:
        ctx.inconclusive('EngineTrace failed: ' + o[-800:])
    for x in v:
        i, tag, rp = owner[x['case']]
        prop = x['prop']
        if prop in ('C02', 'C03') and x['rule'] in ('value-differs-from-source', 'literal-differs', 'foreign-value', 'plugin-received-input-different-from-provided'):
            ctx.add('C19', 'step-observed-input-that-is-not-the-normalised-input', '%s %s [%s]' % (x['rule'], x['detail'], tag), rp)
        else:
            ctx.add(prop, x['rule'], x['detail'], rp)
    ctx.cov(evaluations=len(docs), distinct_nontrivial=len(docs), traces_validated_against_impl=len(cases), states=tst.get('distinct', 0),
            transitions=tst.get('distinct', 0), valid_documents=nvalid, invalid_documents=len(docs) - nvalid,
            rule='every single-field deviation (value kind per schema shape) from a valid base document plus seeded random combinations; distinct = distinct documents',
            samples=[{'doc': docs[1], 'yaml': doc_yaml(docs[1]), 'oracle_valid': oracle[1][0], 'oracle_normal_form': oracle[1][1]},
                     {'doc': docs[-1], 'yaml': doc_yaml(docs[-1]), 'oracle_valid': oracle[len(docs) - 1][0]}])
    ctx.assumptions = ['input enters through the engine API (engine.New / Parse / Run) as YAML text, the path the CLI uses',
                       'InputNorm.tla encodes the SDK conversion rules for the value kinds used (strings parseable as integers/booleans are accepted)'] + family.ASSUME
