"""C01: every run terminates with exactly one output or an error, whatever the size, outcomes and event order."""
import random

import family
import gen
from vlib import lit, ref, tmap


def okoc(**kw):
    d = {'deploy': 'ok', 'enabled': True, 'start': 'ok', 'beh': 'success'}
    d.update(kw)
    return d


def fanin(rng, n, failing='error', sibling='hang', with_failure_output=False, handler=True):
    """n steps feed one output; s0 fails at once, the others never finish until closed (or are slow)"""
    wf = {'steps': {}, 'outputs': {}}
    oc, script = {}, {}
    for i in range(n):
        s = 's%d' % i
        wf['steps'][s] = {'kind': 'plugin', 'pstep': 'work' if handler else 'nowork', 'fields': {'input': tmap({'id': lit(s)})}}
        if i == 0:
            if failing == 'error':
                oc[s] = okoc(beh='error')
                script[s] = {'exec': {'out': 'error'}}
            elif failing == 'crash':
                oc[s] = okoc(beh='crash')
                script[s] = {'exec': {'crash': True}}
            else:
                oc[s] = okoc(deploy='fail')
                script[s] = {'deploy': {'fail': True}}
        else:
            if sibling == 'hang':
                oc[s] = okoc(beh='hang')
                script[s] = {'exec': {'hang': True}}
            else:
                oc[s] = okoc()
                script[s] = {'exec': {'out': 'success', 'delay_ms': rng.choice([0, 1, 5, 30])}}
    wf['outputs']['success'] = tmap({s: ref('steps.%s.outputs.success.tok' % s) for s in wf['steps']})
    if with_failure_output:
        wf['outputs']['failure'] = tmap({'why': ref('steps.s0.outputs.error.reason')})
    want = ['failure'] if (with_failure_output and failing == 'error') else ['error']
    return {'wf': wf, 'oc': oc, 'script': script, 'input': {'x': 'x', 'n': 1, 'flag': True}, 'want': want,
            'schedule': gen.noise_schedule(rng, max_us=200), 'extra': {'timeout_ms': 15000}}


def fallback(rng, n):
    """an output that depends only on a stage the success path never marks (crashed): only the fallback detector can
    end the run; all steps finish"""
    wf = {'steps': {}, 'outputs': {}}
    oc, script = {}, {}
    for i in range(n):
        s = 's%d' % i
        wf['steps'][s] = {'kind': 'plugin', 'pstep': 'work', 'fields': {'input': tmap({'id': lit(s)})}}
        oc[s] = okoc()
        script[s] = {'exec': {'out': 'success', 'delay_ms': rng.choice([0, 2, 10])}}
    wf['outputs']['failure'] = tmap({'why': ref('steps.s0.crashed.error')})
    return {'wf': wf, 'oc': oc, 'script': script, 'input': {'x': 'x', 'n': 1, 'flag': True}, 'want': ['error'],
            'schedule': gen.noise_schedule(rng, max_us=200), 'extra': {'timeout_ms': 15000}}


def fallback_loop_last(rng, n_items, ok):
    """the same with a LOOP step as the last one to finish (its items succeed or one fails): nothing happens after its
    completion, so the check made at that completion has to find the dead end"""
    import check_c13
    it = check_c13.loop_item(rng, n_items, 2, ['success'] * n_items if ok else ['success'] * (n_items - 1) + ['error'], delays=[20] * n_items)
    it['wf']['steps']['pre'] = {'kind': 'plugin', 'pstep': 'work', 'src': 'pre', 'fields': {'input': tmap({'id': lit('pre')})}}
    it['wf']['outputs'] = {'failure': tmap({'why': ref('steps.pre.crashed.error'), 'deploy': ref('steps.pre.deploy_failed.error')})}
    it['script']['pre'] = {'exec': {'out': 'success', 'delay_ms': 0}}
    it['oc']['pre'] = okoc()
    it['want'] = ['error']
    it['nomeaning'] = True
    it.pop('expect_items', None)
    it['extra'] = {'timeout_ms': 15000}
    it['at'] = 'fallback, loop finishes last (%s)' % ('all items well' if ok else 'one item fails')
    return it


def cancelled_run(rng, after_ms, reacts):
    """the caller cancels a run whose only step still executes: closing the step makes the output impossible, and the run
    returns - with an error (never with nothing at all)"""
    wf = {'steps': {'a': {'kind': 'plugin', 'pstep': 'work', 'fields': {'input': tmap({'id': lit('a')}), 'closure_wait_timeout': lit(100)}}},
          'outputs': {'success': tmap({'r': ref('steps.a.outputs.success.tok')})}}
    inp = {'x': 'x', 'n': 1, 'flag': True}
    return {'wf': wf, 'oc': {'a': okoc()}, 'script': {'a': {'exec': {'hang': True, 'on_cancel': '' if reacts else 'ignore'}}}, 'input': inp, 'schedule': None,
            'cancel': True, 'nomeaning': True, 'at': 'cancelled while the only step executes (after %d ms)' % after_ms,
            'extra': {'timeout_ms': 30000, 'runs': [{'input': inp, 'cancel_after_ms': after_ms}]}}


def late_waiter(rng, deploy_ms):
    """the last event of the run is a plain stage change into a waiting stage: `work` succeeds at once, `waiter` deploys
    slowly and then waits for work's crashed.error, which can no longer come; only a deadlock check made after THAT
    stage change can end the run"""
    wf = {'steps': {'work': {'kind': 'plugin', 'pstep': 'work', 'fields': {'input': tmap({'id': lit('work')})}},
                    'waiter': {'kind': 'plugin', 'pstep': 'work', 'fields': {'input': tmap({'id': lit('waiter')}),
                                                                               'wait_for': ref('steps.work.crashed.error')}}},
          'outputs': {'success': tmap({'r': ref('steps.waiter.outputs.success.tok')})}}
    script = {'work': {'exec': {'out': 'success', 'delay_ms': 0}}, 'waiter': {'deploy': {'delay_ms': deploy_ms}, 'exec': {'out': 'success'}}}
    return {'wf': wf, 'oc': {'work': okoc(), 'waiter': okoc()}, 'script': script, 'input': {'x': 'x', 'n': 1, 'flag': True}, 'want': ['error'],
            'schedule': None, 'extra': {'timeout_ms': 15000}}


def late_waiter_gated(rng):
    """the same order of events without relying on speed: `waiter` is held before its deployment until `work`'s goroutine
    has ended (its completion, and the check that goes with it, are then behind the run loop)"""
    it = late_waiter(rng, 0)
    it['schedule'] = {'stalls': [{'point': 'plugin.deploy.beforeDeploy', 'step': 'waiter', 'nth': 1, 'ms': 4000,
                                  'until_ev': 'SExit', 'until_step': 'work'}]}
    return it


def fallback_burst(rng, n):
    """the same, all steps finishing at the same instant: every completion arms its own detector chain and every chain
    reports the dead end - far more than the error buffer holds, after Execute stopped reading it"""
    it = fallback(rng, n)
    for s in it['script']:
        it['script'][s]['exec']['delay_ms'] = 0
    it['schedule'] = None
    return it


def evalfail_burst(rng, n):
    """n producers finishing together, each feeding a consumer whose expression cannot be evaluated: n run-time errors
    reported at once"""
    from vlib import fexpr
    wf = {'steps': {}, 'outputs': {}}
    oc, script = {}, {}
    for i in range(n):
        a, b = 'a%02d' % i, 'b%02d' % i
        wf['steps'][a] = {'kind': 'plugin', 'pstep': 'work', 'fields': {'input': tmap({'id': lit(a)})}}
        wf['steps'][b] = {'kind': 'plugin', 'pstep': 'nowork', 'fields': {'input': tmap({'id': lit(b), 'deps': tmap({
            'v': fexpr('stringToInt($.steps.%s.outputs.success.tok)' % a, ['steps.%s.outputs.success.tok' % a])})})}}
        oc[a], oc[b] = okoc(), okoc()
        script[a] = {'exec': {'out': 'success', 'delay_ms': 20}}
        script[b] = {'exec': {'out': 'success'}}
    wf['outputs']['success'] = tmap({'r': ref('steps.b00.outputs.success.tok')})
    return {'wf': wf, 'oc': oc, 'script': script, 'input': {'x': 'x', 'n': 1, 'flag': True}, 'want': ['error'], 'nomeaning': True,
            'schedule': None, 'extra': {'timeout_ms': 15000}}


def extra(ctx):
    def f(rng):
        sizes = [2, 5, 20, 21, 22, 25] if ctx.quick else [2, 3, 5, 8, 13, 19, 20, 21, 22, 23, 25, 30, 40, 60]
        items = []
        for n in sizes:
            items.append(fanin(rng, n, 'error', 'hang'))
            if not ctx.quick or n in (21, 25):
                items.append(fanin(rng, n, 'crash', 'hang', handler=False))
                items.append(fanin(rng, n, 'deployfail', 'slow', with_failure_output=True))
        for n in ([1, 3] if ctx.quick else [1, 2, 3, 6, 24]):
            items.append(fallback(rng, n))
        for ms in ([150] if ctx.quick else [30, 80, 150, 400]):
            items.append(late_waiter(rng, ms))
        items.append(late_waiter_gated(rng))
        items.append(cancelled_run(rng, 40, False))
        items.append(cancelled_run(rng, 40, True))
        items.append(fallback_loop_last(rng, 2, True))
        items.append(fallback_loop_last(rng, 3, False))
        for n in ([40] if ctx.quick else [21, 30, 40, 80]):
            items.append(fallback_burst(rng, n))
            items.append(evalfail_burst(rng, max(24, n * 3 // 4)))
        return items
    return f


def run(ctx):
    import engine_model
    engine_model.model_part(ctx, 'C01')
    prof = dict(max_steps=5, p_tag=0.1, p_error=0.25, p_crash=0.15, p_deployfail=0.15, p_enabled=0.3, p_multi=0.7)
    family.run_family_check(ctx, 'C01', n_quick=20, n_thorough=300, profile=prof, extra_items=extra(ctx))
