"""C06: cancelling a run stops it in bounded time and reaches every running plugin."""
import random

import family
import gen
from check_c01 import okoc
from vlib import lit, ref, tmap

GRACE_MS = 5000
MARGIN_MS = 2500

POINTS = ['wf.main.beforeKickoff', 'wf.main.beforeSelect', 'ev:XDeployBegin', 'ev:XDeploy', 'ev:SConn', 'ev:SProv', 'ev:SSet', 'ev:SSlot',
          'ev:XExecStart', 'ev:SExec', 'ev:XExecEnd', 'plugin.run.beforeSelect', 'plugin.enable.beforeRecv', 'plugin.enable.afterRecv',
          'plugin.start.beforeRecv', 'plugin.start.beforeReadSchema', 'plugin.deploy.beforeTry', 'plugin.deploy.beforeDeploy',
          'plugin.exec.afterResult', 'plugin.transition.before', 'ev:OutSend', 'ev:HEnter', 'ev:Resolve', 'ev:Provide']


def wf_variants(rng):
    out = []
    to = rng.choice([50, 100, 200])
    wf = {'steps': {'a': {'kind': 'plugin', 'pstep': 'work', 'fields': {'input': tmap({'id': lit('a')}), 'closure_wait_timeout': lit(to)}},
                    'b': {'kind': 'plugin', 'pstep': 'nowork', 'fields': {'input': tmap({'id': lit('b'), 'deps': tmap({'x': ref('steps.a.outputs.success.tok')})})}},
                    'c': {'kind': 'plugin', 'pstep': 'work', 'fields': {'input': tmap({'id': lit('c')}), 'closure_wait_timeout': lit(to)}}},
          'outputs': {'success': tmap({'r': ref('steps.b.outputs.success.tok'), 'c': ref('steps.c.outputs.success.tok')}),
                      'early': tmap({'r': ref('steps.c.outputs.cancelled_early.tok')})}}
    out.append((wf, 2 * to))
    wf2 = {'steps': {'a': {'kind': 'plugin', 'pstep': 'work', 'fields': {'input': tmap({'id': lit('a')}), 'closure_wait_timeout': lit(to)}}},
           'outputs': {'success': tmap({'r': ref('steps.a.outputs.success.tok')})}}
    out.append((wf2, to))
    return out


def items_for(ctx):
    def f(rng):
        items = []
        variants = wf_variants(rng)
        for wf, tsum in variants[:1] if ctx.quick else variants:
            steps = list(wf['steps'])
            for pt in POINTS:
                targets = steps if (pt.startswith('plugin.') or pt.startswith('ev:S') or pt.startswith('ev:X')) else ['']
                for st in (targets[:2] if ctx.quick else targets):
                    for nth in ([1] if ctx.quick else [1, 2]):
                        script = {'a': {'exec': {'out': 'success', 'delay_ms': rng.choice([5, 30]), 'on_cancel': rng.choice(['', 'ignore'])}, 'deploy': {'delay_ms': rng.choice([0, 10])}},
                                  'b': {'exec': {'hang': True}},
                                  'c': {'exec': {'hang': True, 'on_cancel': rng.choice(['', '', 'ignore'])}}}
                        sch = {'triggers': [{'point': pt, 'step': st, 'nth': nth, 'action': 'cancel', 'run': 0}],
                               'noise_seed': rng.randint(1, 1 << 30), 'noise_max_us': 200}
                        inp = {'x': 'x', 'n': 1, 'flag': True}
                        items.append({'wf': wf, 'oc': {s: okoc() for s in steps}, 'script': script, 'input': inp, 'schedule': sch,
                                      'cancel': True, 'nomeaning': True, 'bound_ms': GRACE_MS + tsum + MARGIN_MS, 'at': '%s@%s#%d' % (pt, st, nth),
                                      'extra': {'timeout_ms': 30000, 'runs': [{'input': inp, 'cancel_after_ms': 600}]}})
        return items
    return f


def signal_receipt_items(ctx):
    """a plugin with a cancel handler and a closure timeout long enough for the signal to travel: cancelled while it
    executes, it must RECEIVE the signal (the scripted plugin logs the receipt) before it may be killed"""
    def f(rng):
        items = []
        for beh, after in ([('', 60), ('ignore', 60)] if ctx.quick else [('', 60), ('ignore', 60), ('', 5), ('', 200), ('ignore', 200)]):
            wf = {'steps': {'a': {'kind': 'plugin', 'pstep': 'work', 'fields': {'input': tmap({'id': lit('a')}), 'closure_wait_timeout': lit(1200)}}},
                  'outputs': {'success': tmap({'r': ref('steps.a.outputs.success.tok')}), 'early': tmap({'r': ref('steps.a.outputs.cancelled_early.tok')})}}
            inp = {'x': 'x', 'n': 1, 'flag': True}
            items.append({'wf': wf, 'oc': {'a': okoc()}, 'script': {'a': {'exec': {'hang': True, 'on_cancel': beh}}}, 'input': inp, 'schedule': None,
                          'cancel': True, 'nomeaning': True, 'bound_ms': GRACE_MS + 1200 + MARGIN_MS, 'at': 'signal-receipt on_cancel=%r after %d ms' % (beh, after),
                          'extra': {'timeout_ms': 30000, 'runs': [{'input': inp, 'cancel_after_ms': after}]}})
        return items
    return f


def loop_cancel_items(ctx):
    """a loop with more items than its parallelism, cancelled while the first items execute and the others are queued"""
    def f(rng):
        import check_c13
        items = []
        for n, par, after in ([(3, 1, 40)] if ctx.quick else [(3, 1, 40), (4, 2, 30), (6, 2, 90), (3, 1, 5)]):
            it = check_c13.loop_item(rng, n, par, ['success'] * n, delays=[120] * n)
            it.pop('expect_items', None)
            it['schedule'] = None
            it['cancel'] = True
            it['nomeaning'] = True
            it['bound_ms'] = GRACE_MS + 2000 + MARGIN_MS
            it['at'] = 'loop n=%d par=%d cancel after %d ms' % (n, par, after)
            it['extra'] = {'timeout_ms': 30000, 'runs': [{'input': it['input'], 'cancel_after_ms': after}]}
            items.append(it)
        # item plugins that ignore the cancel signal and are only stopped by the closure timeout of THEIR step (300 ms): the
        # caller's run may not return before they have been stopped
        for after in ([60] if ctx.quick else [20, 60, 150]):
            it = check_c13.loop_item(rng, 2, 2, ['success'] * 2)
            it['subwfs']['sub.yaml']['steps']['w']['fields']['closure_wait_timeout'] = lit(300)
            for k in range(2):
                it['script']['w']['exec_by_id']['i%d' % k] = {'hang': True, 'on_cancel': 'ignore', 'out': 'success', 'n': k}
            it.pop('expect_items', None)
            it['schedule'] = None
            it['cancel'] = True
            it['nomeaning'] = True
            it['bound_ms'] = GRACE_MS + 300 + 2000 + MARGIN_MS
            # a sibling step that dies at once when the run is cancelled makes the output impossible: the run has its
            # verdict (an error) long before the loop has wound down, and must still wait for the loop's plugins
            it['wf']['steps']['sib'] = {'kind': 'plugin', 'pstep': 'work', 'src': 'sib', 'fields': {'input': tmap({'id': lit('sib')}), 'closure_wait_timeout': lit(0)}}
            it['wf']['outputs'] = {'success': tmap({'d': ref('steps.loop.outputs.success.data'), 's': ref('steps.sib.outputs.success.tok')})}
            it['script']['sib'] = {'exec': {'hang': True, 'on_cancel': 'ignore'}}
            it['oc']['sib'] = okoc()
            it['at'] = 'loop items ignoring the cancel signal, cancel after %d ms' % after
            it['extra'] = {'timeout_ms': 30000, 'runs': [{'input': it['input'], 'cancel_after_ms': after}]}
            items.append(it)
        # loops inside loop items (three levels of engine runs): cancelling the caller must reach the innermost plugins
        for after in ([40] if ctx.quick else [5, 40, 90]):
            it = check_c13.nested_loop_item(rng, 2, ['success', 'success', 'success'], par=1)
            for k in range(3):
                it['script']['w']['exec_by_id']['k%d' % k]['delay_ms'] = 150
            it.pop('expect_items', None)
            it['schedule'] = None
            it['cancel'] = True
            it['nomeaning'] = True
            it['bound_ms'] = GRACE_MS + 3000 + MARGIN_MS
            it['at'] = 'nested loops, cancel after %d ms' % after
            it['extra'] = {'timeout_ms': 30000, 'runs': [{'input': it['input'], 'cancel_after_ms': after}]}
            items.append(it)
        return items
    return f


def cli_interrupt_part(ctx):
    """the real command-line program (cmd/arcaflow/main.go, built with the scripted deployer) is sent an interrupt, as a
    terminal would on ctrl-C, while its only step executes: the run is cancelled, the program ends within the bound with
    the "workflow failed" exit code (or, if the step still finishes during the grace period, with its output)"""
    import os
    import re
    import vlib
    try:
        cli = vlib.build_cli(ctx.work)
    except RuntimeError as e:
        ctx.inconclusive(str(e)[-400:])
        return
    n = 0
    for k, (beh, at, want) in enumerate([('hang-reacts', 0.4, {3}), ('hang-ignores', 0.4, {3}), ('finishes-in-grace', 0.2, {0, 3}), ('no-interrupt', None, {0})]):
        base = os.path.join(ctx.work, 'cliint%d' % k)
        os.makedirs(base)
        wf = {'steps': {'a': {'kind': 'plugin', 'pstep': 'work', 'fields': {'input': tmap({'id': lit('a')}), 'closure_wait_timeout': lit(150)}}},
              'outputs': {'success': tmap({'v': ref('steps.a.outputs.success.tok')})}}
        open(os.path.join(base, 'workflow.yaml'), 'w').write(vlib.render_workflow(wf))
        open(os.path.join(base, 'config.yaml'), 'w').write(vlib.CLI_CONFIG)
        ex = {'hang-reacts': {'hang': True}, 'hang-ignores': {'hang': True, 'on_cancel': 'ignore'},
              'finishes-in-grace': {'out': 'success', 'delay_ms': 700, 'on_cancel': 'ignore'}, 'no-interrupt': {'out': 'success', 'delay_ms': 50}}[beh]
        code, so, se, secs = vlib.run_cli(cli, base, {'a': {'exec': ex}}, ['-context', base, '-workflow', 'workflow.yaml', '-config', 'config.yaml'],
                                          timeout=30, sigint_after=at)
        n += 1
        rp = {'kind': 'cli-scenario', 'how': 'verifcli + SIGINT after %s s, step behaviour %s' % (at, beh)}
        bound = (at or 0) + (GRACE_MS + 150 + MARGIN_MS) / 1000.0
        if code == 124:
            ctx.add('C06', 'cli-did-not-end-after-interrupt', beh, rp)
        elif 'panic:' in se and 'go.flow.arcalot.io/engine' in se:
            ctx.add('C07', 'process-crashed-during-run', se[se.find('panic:'):][:160], rp)
        else:
            if code not in want:
                ctx.add('C06', 'cli-exit-code-after-interrupt', '%s: exit %s, expected one of %s' % (beh, code, sorted(want)), rp)
            if secs > bound:
                ctx.add('C06', 'return-later-than-grace-plus-closure-timeouts', 'cli %s: %.1f s > %.1f s' % (beh, secs, bound), rp)
            if code == 3 and re.search(r'^output_id:', so, re.M):
                ctx.add('C06', 'cli-printed-an-output-although-the-run-failed', beh, rp)
    ctx.cov(cli_interrupt_cases=n)


def run(ctx):
    prof = dict(max_steps=3, p_tag=0.0)
    items, findings, stats = family.run_family_check(ctx, 'C06', n_quick=4, n_thorough=20, profile=prof, extra_items=lambda rng: items_for(ctx)(rng) + loop_cancel_items(ctx)(rng) + signal_receipt_items(ctx)(rng))
    worst = 0.0
    ncancel = 0
    for it in items:
        res = it.get('_result')
        if not it.get('cancel') or not res or not res.get('runs'):
            continue
        rr = res['runs'][0]
        if res.get('watchdog'):
            import engine_check
            rp = {'kind': 'scenario', 'item': {k: it[k] for k in ('wf', 'oc', 'script', 'input', 'schedule', 'extra', 'cancel', 'nomeaning') if k in it}}
            ctx.add('C06', 'run-did-not-return-after-cancellation', 'cancel at %s: %s' % (it['at'].split('#')[0], engine_check.classify_hang(res.get('stacks', ''))), rp)
            continue
        if rr['cancel_ms'] < 0:
            continue
        ncancel += 1
        worst = max(worst, rr['after_cancel_ms'])
        rp = {'kind': 'scenario', 'item': {k: it[k] for k in ('wf', 'oc', 'script', 'input', 'schedule', 'extra', 'cancel', 'nomeaning') if k in it}}
        if rr['after_cancel_ms'] > it['bound_ms']:
            ctx.add('C06', 'return-later-than-grace-plus-closure-timeouts', 'cancel at %s: %.0f ms > %d ms' % (it['at'].split('#')[0], rr['after_cancel_ms'], it['bound_ms']), rp)
        if not rr['is_err'] and rr['output_id'] not in it['wf']['outputs']:
            ctx.add('C06', 'undeclared-output-after-cancel', rr['output_id'], rp)
    ctx.cov(cancelled_runs=ncancel, worst_return_after_cancel_ms=round(worst, 1))
    cli_interrupt_part(ctx)
