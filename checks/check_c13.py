"""C13: a loop step returns per-item results in item order within its parallelism."""
import random

import family
import gen
from check_c01 import okoc
from vlib import lit, ref, tmap, tlist

SUB_INPUT = {'root': 'SubIn', 'objects': {'SubIn': {'id': 'SubIn', 'properties': {
    'id': {'type': {'type_id': 'string'}, 'required': True}}}}}


def sub_wf(with_alt):
    wf = {'input_schema': SUB_INPUT,
          'steps': {'w': {'kind': 'plugin', 'pstep': 'work', 'src': 'w', 'fields': {'input': tmap({'id': ref('input.id')})}}},
          'outputs': {'success': tmap({'tok': ref('steps.w.outputs.success.tok'), 'n': ref('steps.w.outputs.success.n')})}}
    if with_alt:
        # shaped differently from "success": the loop's failure report declares its data as success-shaped results, so
        # the data of an item that ended here must not appear in it
        wf['outputs']['alt'] = tmap({'why': ref('steps.w.outputs.alt.tok'), 'code': ref('steps.w.outputs.alt.n')})
    return wf


def loop_item(rng, n_items, par, outcomes, with_alt=False, delays=None, extra_consumer=False, after_ms=None):
    items = [{'id': 'i%d' % k} for k in range(n_items)]
    wf = {'steps': {'loop': {'kind': 'foreach', 'workflow': 'sub.yaml',
                             'fields': dict({'items': lit(items)}, **({'parallelism': lit(par)} if par is not None else {}))}},
          'outputs': {'success': tmap({'d': ref('steps.loop.outputs.success.data')}),
                      'failure': tmap({'e': ref('steps.loop.failed.error')})}}
    if extra_consumer:
        wf['steps']['after'] = {'kind': 'plugin', 'pstep': 'nowork', 'src': 'after',
                                'fields': {'input': tmap({'id': lit('after'), 'deps': tmap({'all': ref('steps.loop.outputs.success.data')})})}}
        wf['outputs']['success'] = tmap({'d': ref('steps.loop.outputs.success.data'), 'a': ref('steps.after.outputs.success.tok')})
    if after_ms is not None:
        # the loop gets its input only after another step has finished: it enters its execute stage first and waits there
        wf['steps']['pre'] = {'kind': 'plugin', 'pstep': 'work', 'src': 'pre', 'fields': {'input': tmap({'id': lit('pre')})}}
        wf['steps']['loop']['fields']['wait_for'] = ref('steps.pre.outputs.success')
    by_id = {}
    allok = True
    for k in range(n_items):
        o = outcomes[k] if k < len(outcomes) else 'success'
        d = (delays[k] if delays else rng.choice([0, 1, 3, 8, 15]))
        by_id['i%d' % k] = {'out': o if o != 'crash' else 'success', 'crash': o == 'crash', 'delay_ms': d, 'n': k}
        if o != 'success':
            allok = False
    script = {'w': {'exec': {'out': 'success'}, 'exec_by_id': by_id}, 'after': {'exec': {'out': 'success'}}}
    oc = {'loop': {'enabled': True, 'beh': 'success' if allok else 'failed'}}
    if after_ms is not None:
        script['pre'] = {'exec': {'out': 'success', 'delay_ms': after_ms}}
        oc['pre'] = okoc()
    if extra_consumer:
        oc['after'] = okoc()
    return {'wf': wf, 'subwfs': {'sub.yaml': sub_wf(with_alt)}, 'oc': oc, 'script': script, 'input': {'x': 'x', 'n': 1, 'flag': True},
            'schedule': gen.noise_schedule(rng, max_us=300), 'extra': {'timeout_ms': 30000},
            'expect_items': {'loop': [('success' if (outcomes[k] if k < len(outcomes) else 'success') == 'success' else 'fail') for k in range(n_items)]},
            'at': 'n=%d par=%s %s' % (n_items, par, ','.join(outcomes[:6]))}


def nested_loop_item(rng, outer_n, inner_outs, par=2):
    """a loop whose items are themselves loops (three levels of engine runs): the outer loop succeeds only if every inner
    loop does, and every level reports its own items in order"""
    inner_n = len(inner_outs)
    it = loop_item(rng, outer_n, par, ['success'] * outer_n)
    it['wf']['steps']['loop']['workflow'] = 'mid.yaml'
    mid = {'input_schema': SUB_INPUT,
           'steps': {'inner': {'kind': 'foreach', 'workflow': 'leaf.yaml',
                               'fields': {'items': lit([{'id': 'k%d' % k} for k in range(inner_n)]), 'parallelism': lit(par)}},
                     'tag': {'kind': 'plugin', 'pstep': 'work', 'src': 'w', 'fields': {'input': tmap({'id': ref('input.id')})}}},
           'outputs': {'success': tmap({'tok': ref('steps.tag.outputs.success.tok'), 'inner': ref('steps.inner.outputs.success.data')})}}
    it['subwfs'] = {'mid.yaml': mid, 'leaf.yaml': sub_wf(False)}
    by_id = it['script']['w']['exec_by_id']
    for k, o in enumerate(inner_outs):
        by_id['k%d' % k] = {'out': o if o != 'crash' else 'success', 'crash': o == 'crash', 'delay_ms': rng.choice([0, 2, 5]), 'n': k}
    allok = all(o == 'success' for o in inner_outs)
    it['oc'] = {'loop': {'enabled': True, 'beh': 'success' if allok else 'failed'}}
    it['expect_items'] = {'loop': ['success' if allok else 'fail'] * outer_n}
    it['at'] = 'nested outer=%d inner=%s' % (outer_n, ','.join(inner_outs))
    return it


def computed_items_item(rng):
    """the item list is built by expressions (a producer's output, the workflow input, a literal), not written out"""
    it = loop_item(rng, 3, 2, ['success'] * 3)
    it['wf']['steps']['pre'] = {'kind': 'plugin', 'pstep': 'work', 'src': 'pre', 'fields': {'input': tmap({'id': lit('pre')})}}
    it['wf']['steps']['loop']['fields']['items'] = tlist([tmap({'id': ref('steps.pre.outputs.success.tok')}), tmap({'id': ref('input.x')}), tmap({'id': lit('i2')})])
    it['script']['pre'] = {'exec': {'out': 'success', 'delay_ms': 5}}
    it['script']['w']['exec_by_id'] = {}
    it['oc']['pre'] = okoc()
    it['at'] = 'computed items'
    return it


def per_item_deploy_item(rng, n_items, par):
    """the step inside the loop's sub-workflow is deployed with a configuration computed from the item: every item run deploys
    with ITS configuration (the prepared sub-workflow is shared by all items)"""
    it = loop_item(rng, n_items, par, ['success'] * n_items, delays=[5] * n_items)
    it['subwfs']['sub.yaml']['steps']['w']['fields']['deploy'] = tmap({'deployer_name': lit('scripted'), 'tag': ref('input.id')})
    it['at'] = 'per-item deployment configuration n=%d par=%d' % (n_items, par)
    return it


def items_for(ctx):
    def f(rng):
        items = []
        items.append(per_item_deploy_item(rng, 3, 1))
        items.append(per_item_deploy_item(rng, 4, 2))
        items.append(nested_loop_item(rng, 2, ['success', 'success']))
        items.append(nested_loop_item(rng, 2, ['success', 'error']))
        items.append(computed_items_item(rng))
        if not ctx.quick:
            items.append(nested_loop_item(rng, 3, ['success', 'crash', 'success'], par=1))
            items.append(nested_loop_item(rng, 1, ['success'] * 4, par=3))
        sizes = [0, 1, 2, 3, 5] if ctx.quick else [0, 1, 2, 3, 4, 5, 8, 13, 30, 80, 200]
        for n in sizes:
            for par in ([1, 2] if ctx.quick else [1, 2, 3, 7]):
                # all succeed, reversed durations so that items finish out of order
                items.append(loop_item(rng, n, par, ['success'] * n, delays=[max(0, (n - k) * 2 % 40) for k in range(n)]))
                if n:
                    outs = [rng.choice(['success', 'success', 'error', 'crash']) for _ in range(n)]
                    items.append(loop_item(rng, n, par, outs))
        # an item ending in a declared non-success output
        for n in ([2] if ctx.quick else [1, 2, 4]):
            outs = ['success'] * n
            outs[rng.randrange(n)] = 'alt'
            items.append(loop_item(rng, n, 2, outs, with_alt=True))
        items.append(loop_item(rng, 3, 2, ['success'] * 3, extra_consumer=True))
        # items that arrive after the loop has entered its execute stage
        items.append(loop_item(rng, 3, 2, ['success'] * 3, after_ms=40))
        items.append(loop_item(rng, 2, 1, ['success', 'error'], after_ms=15))
        # the run is cancelled exactly when one item hands its slot back and the others are still queued (ForeachStep.tla:
        # items aborted by a close): the loop must not report success with their results missing
        for nth, ms in ([(3, 60)] if ctx.quick else [(3, 60), (3, 20), (6, 60), (3, 150)]):
            it = loop_item(rng, 3, 1, ['success'] * 3, delays=[30, 30, 30])
            it.pop('expect_items', None)
            it['schedule'] = {'triggers': [{'point': 'ev:FItem', 'step': 'loop', 'nth': nth, 'action': 'cancel', 'run': 0}],
                              'stalls': [{'point': 'ev:FItem', 'step': 'loop', 'nth': nth, 'ms': ms}]}
            it['extra'] = {'timeout_ms': 30000, 'runs': [{'input': it['input'], 'cancel_after_ms': 5000}]}
            it['cancel'] = True
            it['nomeaning'] = True
            it['at'] = 'cancel-between-items nth=%d' % nth
            items.append(it)
        # no parallelism declared: the documented default is one item at a time
        items.append(loop_item(rng, 4, None, ['success'] * 4, delays=[12, 8, 10, 6]))
        items.append(loop_item(rng, 3, None, ['success', 'error', 'success'], delays=[10, 10, 10]))
        return items
    return f


FE_CFG = '''SPECIFICATION FairSpec
CONSTANTS N = %d
          Par = %d
          AbortedCountAsFailed = TRUE
INVARIANTS WithinParallelism SemMatches SuccessOnlyIfAllOk SuccessOnlyIfNoneFailedOrClosed FailureOnlyIfSomeErr NoItemLostOnSuccess AtMostOneCompletion CompletionAfterClose CountersInv
PROPERTY CloseReturns CountersSpec
CHECK_DEADLOCK FALSE
'''


def model_part(ctx):
    import vlib
    for n, par in ([(3, 2)] if ctx.quick else [(1, 1), (2, 1), (3, 1), (3, 2), (3, 3), (4, 2)]):
        rc, out, td = vlib.tlc(vlib.SPEC, 'ForeachStep', FE_CFG % (n, par), ctx.work, timeout_s=600, workers=4)
        vlib.rmwork(td)
        st = vlib.tlc_stats(out)
        if rc != 0 or 'No error has been found' not in out:
            ctx.inconclusive('ForeachStep.tla (N=%d, Par=%d) failed: %s' % (n, par, out[-1200:]))
        else:
            ctx.cov(states=st.get('distinct', 0), transitions=st.get('generated', 0))


def unbounded_part(ctx):
    """the item pool for ANY number of items and ANY parallelism: ForeachCounters.tla (the counter abstraction that
    ForeachStep.tla refines - PROPERTY CountersSpec above) has an inductive invariant, discharged by Apalache:
    Init => IndInv, IndInv /\\ Next => IndInv', IndInv => Safety; with the engine before repair 503c7f3 (aborted items
    not counted as failed) the induction step must fail (non-vacuity)"""
    import concurrent.futures as cf
    import vlib
    obligations = [('Init => IndInv', ['--cinit=ConstInit', '--init=Init', '--inv=IndInv', '--length=0'], 'ok'),
                   ("IndInv /\\ Next => IndInv'", ['--cinit=ConstInit', '--init=IndInit', '--inv=IndInv', '--length=1'], 'ok'),
                   ('IndInv => Safety', ['--cinit=ConstInit', '--init=IndInit', '--inv=Safety', '--length=0'], 'ok'),
                   ('before repair 503c7f3 the induction step fails', ['--cinit=ConstInitBeforeRepair', '--init=IndInit', '--inv=IndInv', '--length=1'], 'error')]
    with cf.ThreadPoolExecutor(max_workers=4) as ex:
        res = list(ex.map(lambda o: vlib.apalache('ForeachCounters', o[1], ctx.work), obligations))
    proved = 0
    for (name, _, want), got in zip(obligations, res):
        if got != want:
            ctx.inconclusive('ForeachCounters.tla, obligation "%s": expected %s, Apalache says %s' % (name, want, got))
        else:
            proved += 1
    ctx.cov(apalache_obligations=proved)


def run(ctx):
    model_part(ctx)
    unbounded_part(ctx)
    prof = dict(max_steps=2, p_tag=0.0)
    family.run_family_check(ctx, 'C13', n_quick=2, n_thorough=10, profile=prof, extra_items=items_for(ctx))
