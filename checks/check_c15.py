import family


def run(ctx):
    family.run_family_check(ctx, 'C15', n_quick=40, n_thorough=400)
