import family


def has_tags(wf):
    found = []

    def walk(t):
        if t['t'] in ('opt', 'oneof'):
            found.append(t)
        if t['t'] == 'map':
            for v in t['kids'].values():
                walk(v)
        elif t['t'] == 'list':
            for v in t['kids']:
                walk(v)
        elif t['t'] == 'oneof':
            for v in t['opts'].values():
                walk(v)
    for st in wf['steps'].values():
        for t in st['fields'].values():
            walk(t)
    for t in wf['outputs'].values():
        walk(t)
    return bool(found)


def tag_shapes(rng, quick):
    """every tag kind x placement x outcome combination of two sources a and b, consumed by step c and by the output"""
    import itertools
    import gen
    from check_c01 import okoc
    from vlib import lit, ref, tmap, tlist, opt, oneof, ordisabled, fexpr
    items = []
    two = lambda wait: {'t': 'opt', 'wait': wait, 'e': fexpr('$.steps.a.outputs.success.tok + $.steps.b.outputs.success.tok',
                                                            ['steps.a.outputs.success.tok', 'steps.b.outputs.success.tok'])}
    tags = {
        'wait1': lambda: opt('steps.a.outputs.success', True),
        'wait2': lambda: two(True),
        'soft1': lambda: opt('steps.a.outputs.success', False),
        'oneof': lambda: oneof('kind', {'ok': ref('steps.a.outputs.success'), 'other': ref('steps.a.outputs.alt'), 'bad': ref('steps.a.outputs.error')}),
        'ordis': lambda: ordisabled('steps.a.outputs.success'),
        # the discriminator is named like a field the alternatives' own data has: the field then carries the alternative's id
        'oneof-clash': lambda: oneof('tok', {'ok': ref('steps.a.outputs.success'), 'other': ref('steps.a.outputs.alt')}),
        # optional references to a whole stage (all of its outputs): the stage either happens or is declared impossible
        'wait-stage-disabled': lambda: opt('steps.a.disabled', True),
        'wait-stage-outputs': lambda: opt('steps.a.outputs', True),
        'wait-stage-closed': lambda: opt('steps.a.closed', True),
        # option names are free text: dots in them are part of the name, not of a path
        'oneof-dotted': lambda: oneof('kind', {'v1.0': ref('steps.a.outputs.success'), 'v2.0': ref('steps.a.outputs.alt'), 'v1.0.bad': ref('steps.a.outputs.error')}),
        'oneof-with-wait': lambda: oneof('kind', {'ok': tmap({'v': ref('steps.a.outputs.success.tok'), 'w': opt('steps.b.outputs.success', True)}),
                                                  'bad': tmap({'v': ref('steps.a.outputs.error.reason')})}),
        # a soft-optional inside a one-of option must not make the option (and its consumer) wait for the soft source
        'oneof-with-soft': lambda: oneof('kind', {'ok': tmap({'v': ref('steps.a.outputs.success.tok'), 'w': opt('steps.b.outputs.success', False)}),
                                                  'bad': tmap({'v': ref('steps.a.outputs.error.reason')})}),
    }
    placements = {
        'top': lambda t: {'x': t},
        'list': lambda t: {'l': tlist([lit('z'), tmap({'x': t})])},
        'map': lambda t: {'m': tmap({'inner': tmap({'x': t})})},
        'pair': lambda t: {'x': t, 'y': opt('steps.b.outputs.success', True)},
        # tagged fields with siblings (another optional, a plain reference, a literal) several maps deep: each field's
        # dependency group is its own, wherever it sits and whatever is prepared next to it
        'deep3': lambda t: {'d1': tmap({'d2': tmap({'x': t, 'y': opt('steps.b.outputs.success', True), 'k': lit('z'), 'r': ref('steps.a.starting.started')})})},
        'deep4': lambda t: {'d1': tmap({'d2': tmap({'d3': tmap({'x': t, 'y': opt('steps.b.outputs.success', True), 'k': lit('z'), 'r': ref('steps.a.starting.started')})})})},
        'deep5': lambda t: {'d1': tmap({'d2': tmap({'d3': tmap({'d4': tmap({'x': t, 'y': opt('steps.b.outputs.success', True), 'k': lit('z')})})})})},
    }
    outcomes = [('success', 'success'), ('error', 'success'), ('success', 'error'), ('alt', 'success'), ('disabled', 'success'), ('success', 'deployfail')]
    combos = list(itertools.product(tags, placements, outcomes))
    if quick:
        rng.shuffle(combos)
        deep = [c for c in combos[40:] if c[1].startswith('deep') and c[0] in ('wait1', 'soft1', 'wait2') and c[2] in (('success', 'error'), ('error', 'success'))]
        dotted = [c for c in combos[40:] if c[0] == 'oneof-dotted' and c[1] in ('top', 'map')]
        dotted += [c for c in combos[40:] if c[0] == 'oneof-clash' and c[1] in ('top', 'map') and c[2][0] in ('success', 'alt')][:3]
        stagey = [c for c in combos[40:] if c[0].startswith('wait-stage') and c[1] == 'top' and c[2][1] == 'success'][:9]
        combos = combos[:40] + [c for c in combos[40:] if c[0] == 'oneof-with-soft' and c[2] == ('success', 'success')][:2] + deep[:6] + dotted[:7] + stagey
    for tg, pl, (oa, ob) in combos:
        def mk_oc(o):
            if o == 'disabled':
                return dict(okoc(), enabled=False)
            if o == 'deployfail':
                return dict(okoc(), deploy='fail')
            return dict(okoc(), beh=o)
        steps = {}
        for sid, o in (('a', oa), ('b', ob)):
            f = {'input': tmap({'id': lit(sid)})}
            if o == 'disabled':
                f['enabled'] = lit(False)
            steps[sid] = {'kind': 'plugin', 'pstep': 'work', 'fields': f}
        steps['c'] = {'kind': 'plugin', 'pstep': 'nowork', 'fields': {'input': tmap({'id': lit('c'), 'deps': tmap(placements[pl](tags[tg]()))})}}
        wf = {'steps': steps, 'outputs': {'success': tmap(dict(placements[pl](tags[tg]()), c=ref('steps.c.outputs.success.tok')))}}
        oc = {'a': mk_oc(oa), 'b': mk_oc(ob), 'c': okoc()}
        script = {sid: {'deploy': {'fail': oc[sid]['deploy'] == 'fail'},
                        'exec': {'out': oc[sid]['beh'], 'delay_ms': rng.choice([0, 2, 6])}} for sid in ('a', 'b', 'c')}
        if tg == 'oneof-with-soft':
            script['b']['exec']['delay_ms'] = 80      # the soft source is slow: nobody may wait for it
        items.append({'wf': wf, 'oc': oc, 'script': script, 'input': {'x': 'x', 'n': 1, 'flag': True},
                      'schedule': gen.noise_schedule(rng, max_us=300), 'at': '%s/%s a=%s b=%s' % (tg, pl, oa, ob),
                      # the product contains placements the engine legitimately refuses (a tagged value inside a list)
                      'may_be_rejected': True})
    return items


def run(ctx):
    items, findings, stats = family.run_family_check(ctx, 'C15', n_quick=20, n_thorough=300, extra_items=lambda rng: tag_shapes(rng, ctx.quick))
    # in a workflow that uses the tags, a result that differs from the declarative meaning (which applies the tag
    # rules) or an evaluation that fails although every required source was decided is a C15 violation as well
    for f in findings:
        it = items[f['item']]
        if f['prop'] == 'C03' and f['rule'] == 'result-differs-from-declarative-meaning' and has_tags(it['wf']):
            rp = {'kind': 'scenario', 'item': {k: it[k] for k in ('wf', 'oc', 'script', 'input', 'schedule', 'extra') if k in it}}
            ctx.add('C15', 'tagged-workflow-result-differs-from-meaning', f['detail'][:160], rp)
