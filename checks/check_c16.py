"""C16: preparation is deterministic and insensitive to naming and ordering."""
import concurrent.futures as cf
import copy
import json
import random
import re

import engine_check
import gen
import prep_common as pc
import vlib


def permute(x, rng):
    if isinstance(x, dict):
        items = list(x.items())
        rng.shuffle(items)
        return {k: permute(v, rng) for k, v in items}
    if isinstance(x, list):
        return [permute(v, rng) for v in x]      # list order is meaningful
    return x


def rename(x, mapping):
    pat = re.compile(r'\bsteps\.(%s)\b' % '|'.join(map(re.escape, mapping)))

    def rs(s):
        return pat.sub(lambda m: 'steps.' + mapping[m.group(1)], s)
    if isinstance(x, dict):
        return {(mapping.get(k, k) if False else k): rename(v, mapping) for k, v in x.items()}
    if isinstance(x, list):
        return [rename(v, mapping) for v in x]
    if isinstance(x, str):
        return rs(x)
    return x


def rename_wf(wf, mapping):
    w = rename(copy.deepcopy(wf), mapping)
    w['steps'] = {mapping.get(s, s): d for s, d in w['steps'].items()}
    return w


def rename_dump(nodes, edges, mapping):
    pat = re.compile(r'^steps\.(%s)\.' % '|'.join(map(re.escape, mapping)))

    def rn(n):
        return pat.sub(lambda m: 'steps.%s.' % mapping[m.group(1)], n)
    return {rn(n) for n in nodes}, {(rn(a), rn(b), t) for a, b, t in edges}


def run(ctx):
    rng = random.Random(ctx.seed * 6007 + 16)
    n = 12 if ctx.quick else 200
    rep = 6 if ctx.quick else 16
    base, variants = [], []
    for i in range(n):
        prof = dict(max_steps=rng.choice([2, 3, 4, 5]), p_tag=rng.choice([0.2, 0.5, 0.8]), p_waitfor=0.3, p_deployexpr=0.2, p_enabled=0.3, p_multi=0.8, p_sum=0.8, p_loop=0.25)
        wf, oc, script, inp = gen.gen_workflow(rng, prof)
        ids = list(wf['steps'])
        # half of the renamings use names that are words of the expression / lifecycle vocabulary: a step may be called anything
        names = ['zeta', 'a', 'm_1', 'Step9', 'q', 'omega'] if i % 2 == 0 else ['outputs', 'steps', 'input', 'outputs_x', 'closed', 'error', 'success']
        rng.shuffle(names)
        mapping = {s: names[k] for k, s in enumerate(ids)}
        base.append(wf)
        variants.append({'perm': permute(wf, rng), 'ren': rename_wf(wf, mapping), 'mapping': mapping})
    for wf in pc.overlapping_reference_shapes():
        mapping = {'a': 'zeta', 'b': 'alpha'}
        base.append(wf)
        variants.append({'perm': permute(wf, rng), 'ren': rename_wf(wf, mapping), 'mapping': mapping})
    # a step referred to through every tag kind (or-disabled, one-of, optional), renamed to words of the expression /
    # lifecycle vocabulary: the same graph under every name
    from vlib import lit, ref, tmap, opt, oneof, ordisabled
    for names in (('outputs', 'steps'), ('outputs_x', 'input'), ('steps', 'closed'), ('enabling', 'success')):
        a = {'kind': 'plugin', 'pstep': 'work', 'fields': {'input': tmap({'id': lit('a')}), 'enabled': ref('input.flag')}}
        b = {'kind': 'plugin', 'pstep': 'work', 'fields': {'input': tmap({'id': lit('b'), 'deps': tmap({
            'od': ordisabled('steps.a.outputs.success'), 'w': opt('steps.a.outputs.success', True),
            'oo': oneof('kind', {'ok': ref('steps.a.outputs.success'), 'bad': ref('steps.a.outputs.error')})})})}}
        wf = {'steps': {'a': a, 'b': b},
              'outputs': {'success': tmap({'b': ref('steps.b.outputs.success.tok'), 'od': ordisabled('steps.a.outputs.success')})}}
        mapping = {'a': names[0], 'b': names[1]}
        base.append(wf)
        variants.append({'perm': permute(wf, rng), 'ren': rename_wf(wf, mapping), 'mapping': mapping})
    reps = {}
    for name, wf in pc.invalid_next_to_any_field_shapes() + pc.group_collision_shapes():
        # texts that must be refused - every time
        mapping = {'a': 'zeta', 'b': 'alpha'}
        base.append(wf)
        variants.append({'perm': permute(wf, rng), 'ren': rename_wf(wf, mapping), 'mapping': mapping})
        reps[len(base) - 1] = 24 if ctx.quick else 60
    allwfs = base + [v['ren'] for v in variants]
    ok, oracle, st, out, conf = pc.prepare_oracle(ctx, allwfs)
    if not ok:
        ctx.inconclusive('Prepare.tla failed or is not confluent in the model: ' + out[-1500:])
        return
    ctx.cov(states=st.get('distinct', 0), transitions=st.get('generated', 0), model_confluent=conf)
    binary = ctx.binary()
    jobs = []
    for i, wf in enumerate(base):
        jobs.append(('base', i, wf, reps.get(i, rep)))
        jobs.append(('perm', i, variants[i]['perm'], 2))
        jobs.append(('ren', i, variants[i]['ren'], 2))
    with cf.ThreadPoolExecutor(max_workers=max(2, vlib.NCPU - 2)) as ex:
        reals = list(ex.map(lambda a: pc.real_prepare(binary, a[1][2], ctx.work, 'q%04d' % a[0], repeat=a[1][3]), enumerate(jobs)))
    got = {}
    nprep = 0
    for (kind, i, wf, r_), r in zip(jobs, reals):
        rp = {'kind': 'prepare-scenario', 'how': 'verifh prep <scenario>', 'scenario': r['scenario'], 'variant': kind}
        if r['result'] is None:
            if engine_check.engine_panic(r['stderr'] or ''):
                ctx.add('C16', 'preparation-crashed', engine_check.first_panic_line(r['stderr']), rp)
            else:
                ctx.inconclusive('prep driver died: ' + (r['stderr'] or '')[-300:])
            continue
        dumps = r['result']['dumps']
        nprep += len(dumps)
        canon = [json.dumps({'err': bool(d['err']), 'n': sorted(d['nodes'] or []), 'e': d['edges'], 'o': d['outputs'], 'ns': d['namespaces']}, sort_keys=True) for d in dumps]
        if len(set(canon)) != 1:
            k = next(j for j in range(len(canon)) if canon[j] != canon[0])
            what = 'verdict' if bool(dumps[0]['err']) != bool(dumps[k]['err']) else 'graph-or-schema'
            ctx.add('C16', 'repeated-preparation-of-the-same-text-differs', '%s (%s variant)' % (what, kind), rp)
        got[(kind, i)] = (dumps[0], rp)
    for i, wf in enumerate(base):
        if ('base', i) not in got:
            continue
        b, rp = got[('base', i)]
        if b['err']:
            ctx.add('GEN', 'generated-workflow-rejected', b['err'][:200])
            continue
        bn, be = pc.canon_dump(b)
        orc = oracle[i]
        if (bn, be) != (orc['nodes'], orc['edges']):
            ctx.add('C10', 'graph-differs-from-expected', 'base', rp)
        if ('perm', i) in got:
            p, rpp = got[('perm', i)]
            if p['err'] or pc.canon_dump(p) != (bn, be) or p['outputs'] != b['outputs'] or p['namespaces'] != b['namespaces']:
                ctx.add('C16', 'reordering-keys-changed-the-result', (p['err'] or 'graph/schema differs')[:120], rpp)
        if ('ren', i) in got:
            rr, rpr = got[('ren', i)]
            mapping = variants[i]['mapping']
            if rr['err']:
                ctx.add('C16', 'renaming-steps-changed-the-verdict', rr['err'][:120], rpr)
                continue
            rn, re_ = pc.canon_dump(rr)
            want = rename_dump(bn, be, mapping)
            if (rn, re_) != want:
                ctx.add('C16', 'renaming-steps-changed-the-graph', 'missing %s extra %s' % (sorted(want[1] - re_)[:2], sorted(re_ - want[1])[:2]), rpr)
            orr = oracle[len(base) + i]
            if (rn, re_) != (orr['nodes'], orr['edges']):
                ctx.add('C16', 'renamed-workflow-graph-differs-from-expected', '', rpr)
            if sorted(v for v in rr['outputs'].values()) != sorted(v for v in b['outputs'].values()):
                ctx.add('C16', 'renaming-steps-changed-the-output-schema', '', rpr)
    ctx.level = 'translation_validation'
    ctx.cov(programs=len(jobs), disagreements_checked=len(jobs), evaluations=nprep, distinct_nontrivial=len(base) * 3,
            rule='each generated workflow is prepared %d times (Go randomises map order), once with every mapping re-ordered and once with consistently renamed steps; dumps (nodes, typed edges, output schemas, namespaces) compared with each other and with Prepare.tla/ExpectedDAG' % rep,
            samples=[{'mapping': variants[0]['mapping'], 'renamed_yaml': vlib.render_workflow(variants[0]['ren'])[:1500]}])
    ctx.assumptions = ['inferred object ids are not part of the comparison (types are compared structurally)']
