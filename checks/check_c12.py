"""C12: a plugin step reports a consistent life story under every interleaving (provider API level)."""
import concurrent.futures as cf
import json
import os
import random
import re

import vlib

PS_CFG = '''SPECIFICATION FairSpec
CONSTANTS HasHandler = %s
          Closers = {%s}
          MaxProvide = %d
INVARIANTS TypeOK FinishedAtMostOnce NotBoth OutputsDeclared AtMostOneCompletion CompletionIsLastFinish
           DoneMeansFinished NoNotifAfterCloseReturn ConnClosedAtDone
PROPERTY CloseReturns
CHECK_DEADLOCK FALSE
'''


def model_part(ctx):
    cfgs = [('TRUE', 'c1', 1)] if ctx.quick else [('TRUE', 'c1, c2', 2), ('FALSE', 'c1, c2', 2)]
    for hh, cl, mp in cfgs:
        rc, out, td = vlib.tlc(vlib.SPEC, 'PluginStep', PS_CFG % (hh, cl, mp), ctx.work, timeout_s=900, workers=max(2, vlib.NCPU - 2),
                               extra_args=['-coverage', '1'] if not ctx.quick else [])
        vlib.rmwork(td)
        st = vlib.tlc_stats(out)
        if rc != 0 or 'No error has been found' not in out:
            ctx.inconclusive('PluginStep.tla exhaustive check failed (model-level lead, HasHandler=%s): %s' % (hh, out[-1500:]))
            continue
        ctx.cov(states=st.get('distinct', 0), transitions=st.get('generated', 0))
        if not ctx.quick:
            zero = [l for l in out.splitlines() if re.search(r': 0$', l) and '|' not in l]
            ctx.cov(vacuous_actions=len(zero))


def gen_script(rng, overlap):
    """a random environment history"""
    handler = rng.random() < 0.7
    dep_fail = rng.random() < 0.15
    res = rng.choice(['success', 'success', 'alt', 'error', 'crash'])
    # a deployment that succeeds but whose connection cannot be read from / written to: the step fails to START
    start_fail = '' if dep_fail or rng.random() >= 0.15 else rng.choice(['fail_read', 'fail_write'])
    script = {'a': {'deploy': dict({'fail': dep_fail, 'wait_gate': 'dep' if rng.random() < 0.5 else ''}, **({start_fail: True} if start_fail else {})),
                    'exec': {'out': res if res != 'crash' else 'success', 'crash': res == 'crash', 'wait_gate': 'res',
                             'on_cancel': rng.choice(['', '', 'ignore'])}}}
    pool = [{'op': 'provide', 'stage': 'deploy'}, {'op': 'provide', 'stage': 'enabling', 'val': rng.random() < 0.8},
            {'op': 'provide', 'stage': 'starting'}, {'op': 'release', 'gate': 'dep'}, {'op': 'release', 'gate': 'res'}]
    acts = list(pool)
    # multiplicity: second provides
    for a in pool[:3]:
        if rng.random() < 0.3:
            acts.append(dict(a))
    if handler and rng.random() < 0.3:
        acts.append({'op': 'provide', 'stage': 'cancelled', 'val': True})
    if rng.random() < 0.2:
        acts.append({'op': 'provide', 'stage': 'cancelled'})
    ncl = rng.choice([0, 1, 1, 2])
    for i in range(ncl):
        acts.append({'op': rng.choice(['close', 'forceclose']), 'id': 'c%d' % (i + 1)})
    if rng.random() < 0.7:
        # mostly-natural order with local shuffles, so that deep stages are reached often
        for _ in range(rng.randint(0, 3)):
            i, j = rng.randrange(len(acts)), rng.randrange(len(acts))
            acts[i], acts[j] = acts[j], acts[i]
    else:
        rng.shuffle(acts)
    for a in acts:
        a['lane'] = rng.randint(0, 2) if overlap else 0
    sc = {'pstep': 'work' if handler else 'nowork', 'src': 'a', 'script': script, 'actions': acts, 'overlap': overlap,
          'timeout_ms': 20000}
    if rng.random() < 0.6:
        sc['schedule'] = {'noise_seed': rng.randint(1, 1 << 30), 'noise_max_us': rng.choice([100, 500, 2000]), 'noise_pct': 30}
    return sc, handler


def overlapped_close_scripts(rng, n):
    """two close requests overlapping while a slow handler keeps the step busy with its closing notifications"""
    out = []
    stages = [[], ['deploy'], ['deploy', 'enabling'], ['deploy', 'enabling', 'starting']]
    for k in range(n):
        pre = stages[k % len(stages)]
        handler = rng.random() < 0.7
        acts = [{'op': 'provide', 'stage': st, 'lane': 0, **({'val': True} if st == 'enabling' else {})} for st in pre]
        acts.append({'op': 'sleep', 'ms': rng.choice([2, 6]), 'lane': 0})
        first, second = rng.choice([('close', 'close'), ('forceclose', 'close'), ('close', 'forceclose'), ('forceclose', 'forceclose')])
        acts.append({'op': 'sleep', 'ms': 12, 'lane': 1})
        acts.append({'op': first, 'id': 'c1', 'lane': 1})
        acts.append({'op': 'sleep', 'ms': 12 + rng.choice([2, 5, 9]), 'lane': 2})
        acts.append({'op': second, 'id': 'c2', 'lane': 2})
        script = {'a': {'deploy': {}, 'exec': {'out': 'success', 'wait_gate': 'res', 'on_cancel': rng.choice(['', 'ignore'])}}}
        sc = {'pstep': 'work' if handler else 'nowork', 'src': 'a', 'script': script, 'actions': acts, 'overlap': True, 'timeout_ms': 20000,
              'schedule': {'stalls': [{'point': 'ev:Notif', 'nth': 0, 'ms': rng.choice([6, 10])}]}}
        out.append((sc, handler))
    return out


def close_during_completion_scripts(rng, n):
    """one close request arriving while a step that ended WITHOUT running (deployment failed / disabled / crashed) is
    still delivering its completion and "stage impossible" notifications through a slow handler: the close may only
    return when the last of them has been delivered"""
    out = []
    for k in range(n):
        ending = ['deployfail', 'disabled', 'crash'][k % 3]
        handler = k % 2 == 0
        acts = [{'op': 'provide', 'stage': 'deploy', 'lane': 0}]
        if ending != 'deployfail':
            acts.append({'op': 'provide', 'stage': 'enabling', 'val': ending != 'disabled', 'lane': 0})
        if ending == 'crash':
            acts.append({'op': 'provide', 'stage': 'starting', 'lane': 0})
        acts.append({'op': 'sleep', 'ms': rng.choice([8, 15, 25, 40]), 'lane': 1})
        acts.append({'op': rng.choice(['close', 'close', 'forceclose']), 'id': 'c1', 'lane': 1})
        script = {'a': {'deploy': {'fail': ending == 'deployfail'}, 'exec': {'out': 'success', 'crash': ending == 'crash', 'delay_ms': 1}}}
        sc = {'pstep': 'work' if handler else 'nowork', 'src': 'a', 'script': script, 'actions': acts, 'overlap': True, 'timeout_ms': 20000,
              'schedule': {'stalls': [{'point': 'ev:Notif', 'nth': 0, 'ms': rng.choice([6, 10, 15])}]}}
        out.append((sc, handler))
    return out


def start_failure_scripts(rng, n):
    """the deployment succeeds but the step cannot START (the connection cannot be read from, or written to): one completion
    (crashed), every stage either finished or declared impossible - never both"""
    out = []
    for k in range(n):
        fault = ['fail_read', 'fail_write'][k % 2]
        handler = (k // 2) % 2 == 0
        acts = [{'op': 'provide', 'stage': 'deploy', 'lane': 0}, {'op': 'provide', 'stage': 'enabling', 'val': True, 'lane': 0},
                {'op': 'provide', 'stage': 'starting', 'lane': 0}]
        if k % 3 == 2:
            acts.append({'op': 'sleep', 'ms': rng.choice([5, 20]), 'lane': 1})
            acts.append({'op': rng.choice(['close', 'forceclose']), 'id': 'c1', 'lane': 1})
        script = {'a': {'deploy': {fault: True}, 'exec': {'out': 'success', 'delay_ms': 1}}}
        out.append(({'pstep': 'work' if handler else 'nowork', 'src': 'a', 'script': script, 'actions': acts, 'overlap': k % 3 == 2, 'timeout_ms': 20000}, handler))
    return out


def forced_close_scripts(rng, n):
    """a running step is closed and its plugin does not answer (it ignores the cancel signal, or has no handler for it): the
    step is forced down - and still reports exactly one completion and ends finished"""
    out = []
    for k in range(n):
        handler = k % 2 == 0
        acts = [{'op': 'provide', 'stage': 'deploy', 'lane': 0}, {'op': 'provide', 'stage': 'enabling', 'val': True, 'lane': 0},
                {'op': 'provide', 'stage': 'starting', 'lane': 0}, {'op': 'sleep', 'ms': 25, 'lane': 1},
                {'op': ['forceclose', 'close'][(k // 2) % 2], 'id': 'c1', 'lane': 1}]
        script = {'a': {'deploy': {}, 'exec': {'hang': True, 'on_cancel': 'ignore', 'out': 'success'}}}
        out.append(({'pstep': 'work' if handler else 'nowork', 'src': 'a', 'script': script, 'actions': acts, 'overlap': True, 'timeout_ms': 20000}, handler))
    return out


def stop_while_closing_scripts(rng, n):
    """a stop condition reaching a step (waiting at each of its blocking points, or running) in the same instant in which
    the step is closed for another reason"""
    out = []
    stages = [[], ['deploy'], ['deploy', 'enabling'], ['deploy', 'enabling', 'starting']]
    for k in range(n):
        pre = stages[k % len(stages)]
        handler = True          # (the engine refuses stop_if on a step whose plugin has no cancel handler, at preparation)
        acts = [{'op': 'provide', 'stage': st, 'lane': 0, **({'val': True} if st == 'enabling' else {})} for st in pre]
        base = 15
        acts.append({'op': 'sleep', 'ms': base, 'lane': 1})
        acts.append({'op': rng.choice(['close', 'forceclose']), 'id': 'c1', 'lane': 1})
        acts.append({'op': 'sleep', 'ms': base + rng.choice([0, 0, 1]), 'lane': 2})
        acts.append({'op': 'provide', 'stage': 'cancelled', 'val': True, 'lane': 2})
        script = {'a': {'deploy': {'delay_ms': rng.choice([0, 30])}, 'exec': {'out': 'success', 'wait_gate': 'res', 'on_cancel': rng.choice(['', 'ignore'])}}}
        out.append(({'pstep': 'work' if handler else 'nowork', 'src': 'a', 'script': script, 'actions': acts, 'overlap': True, 'timeout_ms': 20000}, handler))
    return out


def run_step(binary, sc, work, name):
    d = os.path.join(work, name)
    os.makedirs(d, exist_ok=True)
    sc = dict(sc, trace_out=os.path.join(d, 'trace.ndjson'), result_out=os.path.join(d, 'result.json'))
    with open(os.path.join(d, 'scenario.json'), 'w') as f:
        json.dump(sc, f)
    import subprocess
    try:
        p = subprocess.run([binary, 'step', os.path.join(d, 'scenario.json')], capture_output=True, text=True, timeout=60, env=vlib.GOENV)
        code, err = p.returncode, p.stderr
    except subprocess.TimeoutExpired:
        code, err = 124, 'timeout'
    res = None
    try:
        res = json.load(open(sc['result_out']))
    except Exception:
        pass
    return {'code': code, 'stderr': err, 'result': res, 'trace': sc['trace_out'], 'dir': d, 'scenario': sc}


def norm_step(evs, kind='plugin'):
    out = []
    aborted = set()
    for e in evs:
        k = e['ev']
        if k == 'SSet':
            out.append({'ev': 'SSet', 'stage': e['stage'], 'state': e['state']})
        elif k == 'Notif':
            out.append({'ev': 'Notif', 'k': e['k'], 'prev': vlib.nz(e.get('prev')), 'new': e.get('new') or 'nil', 'out': vlib.nz(e.get('out'))})
        elif k == 'SProv':
            if e.get('closed'):
                continue
            out.append({'ev': 'SProv', 'stage': e['stage'], 'ok': bool(e['ok']), 'val': str(e.get('val', 'nil')).lower(), 'state': e.get('state', 'nil')})
        elif k == 'SClose' and e['kind'] in ('force', 'close'):
            out.append({'ev': 'SClose', 'was': bool(e['was'])})
        elif k == 'SCloseRet':
            out.append({'ev': 'SCloseRet'})
        elif k == 'SExit':
            out.append({'ev': 'SExit'})
        elif k == 'XExecStart':
            out.append({'ev': 'XExecStart'})
        elif k == 'XExecAbort':
            aborted.add(e['conn'])
            out.append({'ev': 'XExecAbort'})
        elif k == 'XExecEnd':
            if e['conn'] in aborted:
                continue
            out.append({'ev': 'XExecEnd', 'out': e['out']})
        elif k == 'EnvRet':
            out.append({'ev': 'EnvRet', 'op': e['op'], 'stage': e.get('stage', 'nil'), 'iserr': e.get('err') is not None, 'err': vlib.nz(e.get('err'))[:80]})
        elif k == 'EnvFinal':
            out.append({'ev': 'Final', 'state': e['state'], 'stage': e['stage'], 'expectCompletion': True})
    return out


STRICT_CFG = '''SPECIFICATION TSpec
CONSTANTS HasHandler = %s
          Closers = {%s}
          MaxProvide = %d
          TraceFile = "trace.json"
CONSTRAINT HighWater
INVARIANTS FinishedAtMostOnce NotBoth OutputsDeclared AtMostOneCompletion CompletionIsLastFinish
POSTCONDITION Accepted
CHECK_DEADLOCK FALSE
'''


def strict_one(args):
    evs, handler, work = args
    import tempfile
    d = tempfile.mkdtemp(prefix='ptrace-', dir=work)
    strict_events = [e for e in evs if e['ev'] in ('SSet', 'Notif', 'SProv', 'SClose', 'SCloseRet', 'SExit', 'XExecStart', 'XExecEnd', 'XExecAbort')]
    path = os.path.join(d, 'trace.json')
    json.dump(strict_events, open(path, 'w'))
    ncl = max(1, sum(1 for e in strict_events if e['ev'] == 'SClose'))
    mp = 1
    for st in ('deploy', 'enabling', 'starting', 'cancelled'):
        mp = max(mp, sum(1 for e in strict_events if e['ev'] == 'SProv' and e['stage'] == st))
    cfg = STRICT_CFG % ('TRUE' if handler else 'FALSE', ', '.join('c%d' % (i + 1) for i in range(ncl)), mp)
    rc, out, td = vlib.tlc(vlib.SPEC, 'PluginTrace', cfg, work, timeout_s=300, workers=1, copy=[path],
                           java_opts='-Dtlc2.tool.queue.IStateQueue=StateDeque')
    vlib.rmwork(td)
    vlib.rmwork(d)
    m = re.search(r'<<"HW", (\d+), (\d+)>>', out)
    hw = (int(m.group(1)), int(m.group(2))) if m else None
    inv = re.search(r'Invariant (\w+) is violated', out)
    st = vlib.tlc_stats(out)
    return {'accepted': rc == 0 and hw is not None and hw[0] == hw[1] + 1, 'hw': hw, 'inv': inv.group(1) if inv else None,
            'states': st.get('distinct', 0), 'out': out[-1200:] if rc != 0 else ''}


def run(ctx):
    model_part(ctx)
    rng = random.Random(ctx.seed * 104729 + 12)
    binary = ctx.binary()
    n = 40 if ctx.quick else 600
    scs = [gen_script(rng, overlap=(i % 3 == 2)) for i in range(n)] + overlapped_close_scripts(rng, 8 if ctx.quick else 80) + close_during_completion_scripts(rng, 12 if ctx.quick else 90) + start_failure_scripts(rng, 4 if ctx.quick else 24) + stop_while_closing_scripts(rng, 8 if ctx.quick else 48) + forced_close_scripts(rng, 4 if ctx.quick else 16)
    with cf.ThreadPoolExecutor(max_workers=max(2, vlib.NCPU - 2)) as ex:
        results = list(ex.map(lambda a: run_step(binary, a[1][0], ctx.work, 'st%04d' % a[0]), enumerate(scs)))
    cases = []
    owners = []
    for i, r in enumerate(results):
        res = r['result']
        rp = {'kind': 'step-scenario', 'how': 'verifh step <scenario>', 'scenario': r['scenario']}
        if res is None:
            if vlib_engine_panic(r['stderr']):
                ctx.add('C12', 'process-crashed-in-step-driver', first_line(r['stderr']), rp)
            else:
                ctx.inconclusive('step driver died: ' + (r['stderr'] or '')[-400:])
            continue
        if res.get('watchdog'):
            ctx.add('C12', 'close-or-provide-did-not-return', 'watchdog', rp)
            continue
        if res.get('err'):
            ctx.inconclusive('step driver: ' + res['err'])
            continue
        for ret in res.get('returns') or []:
            if ret['op'] == 'provide' and ret['ms'] > 1000:
                ctx.add('C12', 'provide-blocked', '%.0f ms' % ret['ms'], rp)
        for lk in res.get('leaks') or []:
            ctx.add('C05', 'goroutine-left-after-close', lk.splitlines()[0][:100], rp)
        evs = norm_step(vlib.read_trace(r['trace']))
        cases.append({'kind': 'plugin', 'outs': vlib.PLUGIN_OUTS, 'events': evs})
        owners.append(i)
    # monitor mode (verdicts)
    verdicts, mstates = step_monitor(ctx, cases)
    for v in verdicts:
        i = owners[v['case']]
        ctx.add(v['prop'], v['rule'], v['detail'], {'kind': 'step-scenario', 'how': 'verifh step <scenario>', 'scenario': results[i]['scenario']})
    # strict mode (fidelity of PluginStep.tla; a rejection is model drift, not a violation)
    k = len(cases) if not ctx.quick else min(len(cases), 24)
    with cf.ThreadPoolExecutor(max_workers=max(2, vlib.NCPU // 2)) as ex:
        strict = list(ex.map(strict_one, [(cases[j]['events'], scs[owners[j]][1], ctx.work) for j in range(k)]))
    acc = sum(1 for s in strict if s['accepted'])
    for j, s in enumerate(strict):
        if not s['accepted']:
            ctx.add('DRIFT', 'plugin-step-trace-not-a-behaviour-of-PluginStep.tla', 'hw=%s inv=%s case=%d %s' % (s['hw'], s['inv'], owners[j], s['out'][-200:]))
    # binding self-test: a duplicated completion must be flagged by the monitor, a dropped notification rejected by the strict spec
    if cases:
        import copy
        base = cases[0]
        dup = copy.deepcopy(base)
        idx = [i for i, e in enumerate(dup['events']) if e['ev'] == 'Notif' and e['k'] == 'CO']
        drop = copy.deepcopy(base)
        nidx = [i for i, e in enumerate(drop['events']) if e['ev'] == 'Notif' and e['k'] != 'F']
        st_ok = {}
        if idx:
            dup['events'].insert(idx[0] + 1, dict(dup['events'][idx[0]]))
            v2, _ = step_monitor(ctx, [dup])
            st_ok['duplicated_completion_flagged'] = any(x['rule'] in ('second-completion', 'stage-finished-twice') for x in v2)
        if nidx:
            del drop['events'][nidx[0]]
            st_ok['dropped_notification_rejected'] = not strict_one((drop['events'], scs[owners[0]][1], ctx.work))['accepted']
        ctx.cov(binding_selftest=st_ok)
        if not all(st_ok.values()):
            ctx.inconclusive('self-test: a corrupted step trace was accepted (binding broken): %s' % st_ok)
    ctx.cov(evaluations=len(results), distinct_nontrivial=len({json.dumps(s[0]['actions'], sort_keys=True) for s in scs}),
            traces_validated_against_impl=len(cases), states=mstates + sum(s['states'] for s in strict),
            transitions=mstates + sum(s['states'] for s in strict),
            strict_accepted=acc, strict_checked=len(strict),
            rule='seeded random environment histories (provide x{deploy,enabling,starting,cancelled} with multiplicity, close/forceclose, deployment/result release, outcome) sequential and overlapped; distinct = distinct action sequences',
            samples=[{'actions': scs[0][0]['actions'], 'script': scs[0][0]['script']}])
    ctx.assumptions = ['provider driven through its public API with a recording StageChangeHandler; scripted deployer/plugin',
                       'strict-mode rejections are reported as model drift, verdicts come from StepMonitor.tla rules only']


def step_monitor(ctx, cases):
    if not cases:
        return [], 0
    import tempfile
    d = tempfile.mkdtemp(prefix='stepmon-', dir=ctx.work)
    path = os.path.join(d, 'cases.json')
    json.dump(cases, open(path, 'w'))
    cfg = 'SPECIFICATION Spec\nCONSTANT CaseFile = "cases.json"\nCONSTRAINT Export\nPOSTCONDITION Accepted\nCHECK_DEADLOCK FALSE\n'
    rc, out, td = vlib.tlc(vlib.SPEC, 'StepMonitor', cfg, ctx.work, timeout_s=600, workers=1, copy=[path])
    vlib.rmwork(td)
    vlib.rmwork(d)
    verdicts = None
    for line in out.splitlines():
        m = re.match(r'<<"VERDICTS", "(.*)">>$', line.strip())
        if m:
            verdicts = json.loads(m.group(1).encode().decode('unicode_escape'))
    if rc != 0 or verdicts is None:
        ctx.inconclusive('StepMonitor.tla failed: ' + out[-1500:])
        return [], 0
    return [{'prop': x[0], 'rule': x[1], 'detail': x[2], 'case': x[3] - 1, 'line': x[4]} for x in verdicts], vlib.tlc_stats(out).get('distinct', 0)


def vlib_engine_panic(txt):
    import engine_check
    return engine_check.engine_panic(txt or '')


def first_line(txt):
    import engine_check
    return engine_check.first_panic_line(txt or '')
