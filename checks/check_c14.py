"""C14: a prepared workflow can be run again and concurrently with identical results."""
import random

import family
import gen
from check_c01 import okoc
from vlib import lit, ref, tmap, opt, oneof, ordisabled


def rerun_items(ctx):
    def f(rng):
        items = []
        n = 10 if ctx.quick else 120
        for k in range(n):
            prof = dict(max_steps=rng.choice([2, 3, 4]), p_tag=0.3, p_error=0.15, p_enabled=0.2, p_multi=0.7)
            wf, oc, script, inp = gen.gen_workflow(rng, prof)
            # every step carries the workflow input so that values of different runs differ
            for sid, st in wf['steps'].items():
                st['fields']['input']['kids']['s'] = ref('input.x')
            nruns = rng.choice([2, 2, 3])
            mode = rng.choice(['sequential', 'overlap', 'overlap', 'after-cancelled', 'after-invalid'])
            inputs = [dict(inp, x='run%d' % r) for r in range(nruns)]
            runs = [{'input': inputs[r], 'start_delay_ms': rng.choice([0, 0, 1, 3]) if mode == 'overlap' else 0} for r in range(nruns)]
            override = {}
            if mode == 'after-cancelled':
                runs[0]['cancel_after_ms'] = rng.choice([1, 3, 6])
            if mode == 'after-invalid':
                runs[0]['input'] = {'x': {'not': 'a string'}, 'n': 1, 'flag': True}
                override[0] = ['error']
            items.append({'wf': wf, 'oc': oc, 'script': script, 'input': inp, 'inputs': inputs,
                          'schedule': gen.noise_schedule(rng, max_us=rng.choice([100, 600])),
                          'extra': {'runs': runs, 'overlap': mode == 'overlap', 'prepare_n': rng.choice([0, 1]), 'timeout_ms': 30000, 'scribble_results': True},
                          'want_override': override, 'mode': mode, 'at': '%s x%d' % (mode, nruns)})
        return items
    return f


def overlap_shapes(ctx):
    """deterministic overlaps: run B produces its first-step output while run A, started earlier on the same prepared
    workflow, is still inside its second step; A's output reads both steps afterwards and must see A's values"""
    def f(rng):
        items = []
        for delay_b, d1, d2 in ([(60, 20, 150)] if ctx.quick else [(60, 20, 150), (30, 5, 80), (100, 40, 200), (10, 0, 60)]):
            wf = {'steps': {'first': {'kind': 'plugin', 'pstep': 'work', 'fields': {'input': tmap({'id': lit('first'), 's': ref('input.x')})}},
                            'second': {'kind': 'plugin', 'pstep': 'work', 'fields': {'input': tmap({'id': lit('second'), 's': ref('input.x'),
                                                                                                   'deps': tmap({'f': ref('steps.first.outputs.success.tok')})})}}},
                  'outputs': {'success': tmap({'a': ref('steps.first.outputs.success.tok'), 'b': ref('steps.second.outputs.success.tok'),
                                               'st': ref('steps.first.starting.started')})}}
            script = {'first': {'exec': {'out': 'success', 'delay_ms': d1}}, 'second': {'exec': {'out': 'success', 'delay_ms': d2}}}
            inp = {'x': 'x', 'n': 1, 'flag': True}
            inputs = [dict(inp, x='runA'), dict(inp, x='runB'), dict(inp, x='runC')]
            runs = [{'input': inputs[0], 'start_delay_ms': 0}, {'input': inputs[1], 'start_delay_ms': delay_b}, {'input': inputs[2], 'start_delay_ms': 2 * delay_b}]
            items.append({'wf': wf, 'oc': {'first': okoc(), 'second': okoc()}, 'script': script, 'input': inp, 'inputs': inputs, 'schedule': None,
                          'extra': {'runs': runs, 'overlap': True, 'timeout_ms': 30000}, 'want_override': {}, 'mode': 'overlap-staggered',
                          'at': 'staggered %d/%d/%d' % (delay_b, d1, d2)})
        return items
    return f


def after_failed_shapes(ctx):
    """a run that ends with an engine-reported error (no output possible) followed by runs of the same prepared workflow
    whose input makes an output possible - directly, and through a loop step whose first item fails"""
    def f(rng):
        import check_c13
        items = []
        wf = {'steps': {'a': {'kind': 'plugin', 'pstep': 'work', 'fields': {'input': tmap({'id': lit('a'), 's': ref('input.x')}), 'enabled': ref('input.flag')}},
                        'b': {'kind': 'plugin', 'pstep': 'work', 'fields': {'input': tmap({'id': lit('b'), 's': ref('input.x'), 'deps': tmap({'t': ref('steps.a.outputs.success.tok')})})}}},
              'outputs': {'success': tmap({'r': ref('steps.b.outputs.success.tok'), 'a': ref('steps.a.outputs.success.tok')})}}
        script = {'a': {'exec': {'out': 'success', 'delay_ms': 3}}, 'b': {'exec': {'out': 'success', 'delay_ms': 3}}}
        base = {'x': 'x', 'n': 1, 'flag': True}
        for pattern in ([(False, True, True), (False, False, True)] if ctx.quick else [(False, True, True), (False, False, True), (True, False, True), (False, False, False)]):
            inputs = [dict(base, x='run%d' % k, flag=fl) for k, fl in enumerate(pattern)]
            runs = [{'input': i, 'start_delay_ms': 0} for i in inputs]
            override = {k: (['success'] if fl else ['error']) for k, fl in enumerate(pattern)}
            oc = {'a': dict(okoc(), enabled=True), 'b': okoc()}
            items.append({'wf': wf, 'oc': oc, 'script': script, 'input': inputs[-1], 'inputs': inputs, 'schedule': None,
                          'extra': {'runs': runs, 'overlap': False, 'timeout_ms': 30000}, 'want': ['success'], 'want_override': override,
                          'nomeaning': True, 'mode': 'after-failed', 'at': 'after-failed %s' % (pattern,)})
        # the first run ends with a run-time evaluation error while the workflow's output is still pending (not: declared
        # impossible); the later runs get an input the expression can digest
        from vlib import fexpr
        wf2 = {'steps': {'a': {'kind': 'plugin', 'pstep': 'work', 'fields': {'input': tmap({'id': lit('a')})}},
                         'b': {'kind': 'plugin', 'pstep': 'work', 'fields': {'input': tmap({'id': lit('b'), 'deps': tmap({
                             't': ref('steps.a.outputs.success.tok'), 'v': fexpr('stringToInt($.input.x)', ['input.x'])})})}}},
               'outputs': {'success': tmap({'r': ref('steps.b.outputs.success.tok')})}}
        for pattern in ([('zz', '12', '13')] if ctx.quick else [('zz', '12', '13'), ('zz', 'yy', '7'), ('5', 'zz', '6')]):
            inputs = [dict(base, x=v) for v in pattern]
            runs = [{'input': i, 'start_delay_ms': 0} for i in inputs]
            override = {k: (['success'] if v.isdigit() else ['error']) for k, v in enumerate(pattern)}
            items.append({'wf': wf2, 'oc': {'a': okoc(), 'b': okoc()}, 'script': script, 'input': inputs[-1], 'inputs': inputs, 'schedule': None,
                          'extra': {'runs': runs, 'overlap': False, 'timeout_ms': 30000}, 'want': ['success'], 'want_override': override,
                          'nomeaning': True, 'mode': 'after-failed', 'at': 'after-evaluation-failure %s' % (pattern,)})
        # the deployment configuration of a step is an expression over the workflow input: every run deploys with ITS
        # configuration (here: whether the deployment succeeds at all), whatever an earlier or overlapping run evaluated
        wf3 = {'steps': {'a': {'kind': 'plugin', 'pstep': 'work', 'fields': {
                   'input': tmap({'id': lit('a'), 's': ref('input.x')}),
                   'deploy': tmap({'deployer_name': lit('scripted'), 'mode': ref('input.x'), 'tag': ref('input.x')})}}},
               'outputs': {'success': tmap({'r': ref('steps.a.outputs.success.tok')}), 'nodeploy': tmap({'e': ref('steps.a.deploy_failed.error.error')})}}
        for pattern, overlap in ([(('ok', 'fail', 'ok'), False), (('fail', 'ok'), True)] if ctx.quick else
                                 [(('ok', 'fail', 'ok'), False), (('fail', 'ok', 'fail'), False), (('fail', 'ok'), True), (('ok', 'fail', 'ok'), True)]):
            inputs = [dict(base, x=v) for v in pattern]
            runs = [{'input': i, 'start_delay_ms': 3 * k if overlap else 0} for k, i in enumerate(inputs)]
            override = {k: (['success'] if v == 'ok' else ['nodeploy']) for k, v in enumerate(pattern)}
            items.append({'wf': wf3, 'oc': {'a': okoc()}, 'script': {'a': {'exec': {'out': 'success', 'delay_ms': 10}}}, 'input': inputs[-1], 'inputs': inputs,
                          'schedule': None, 'extra': {'runs': runs, 'overlap': overlap, 'timeout_ms': 30000},
                          'want': override[len(pattern) - 1], 'want_override': override,
                          'nomeaning': True, 'mode': 'per-run-deploy-config', 'at': 'deploy-config %s overlap=%s' % (pattern, overlap)})
        # literal lists and maps in the workflow output and in a step input, next to expressions: every run gets its own copies,
        # whatever the caller of an earlier run did to the result it was handed (the driver scribbles over every result)
        wf4 = {'steps': {'a': {'kind': 'plugin', 'pstep': 'work', 'fields': {'input': tmap({'id': lit('a'), 's': ref('input.x'),
                                                                                            'deps': tmap({'cfg': lit({'mode': 'fast', 'tags': ['x', 'y']}), 'l': lit(['p', 'q'])})})}}},
               'outputs': {'success': tmap({'r': ref('steps.a.outputs.success.tok'), 'meta': lit({'source': 'engine', 'labels': ['greeting', 'demo']}),
                                            'tags': lit(['one', 'two']), 'nested': tmap({'fixed': lit({'k': 'v'}), 'r': ref('input.x')})})}}
        for nruns, overlap in ([(3, False), (2, True)] if ctx.quick else [(3, False), (4, False), (2, True), (3, True)]):
            inputs = [dict(base, x='run%d' % k) for k in range(nruns)]
            runs = [{'input': i, 'start_delay_ms': 4 * k if overlap else 0} for k, i in enumerate(inputs)]
            items.append({'wf': wf4, 'oc': {'a': okoc()}, 'script': {'a': {'exec': {'out': 'success', 'delay_ms': 8}}}, 'input': inputs[-1], 'inputs': inputs,
                          'schedule': None, 'extra': {'runs': runs, 'overlap': overlap, 'timeout_ms': 30000, 'scribble_results': True},
                          'want_override': {}, 'mode': 'caller-scribbles-over-results', 'at': 'literal data x%d overlap=%s' % (nruns, overlap)})
        return items
    return f


def run(ctx):
    prof = dict(max_steps=2, p_tag=0.0)

    def detail(f, it):
        return '%s [history %s]' % (f['detail'], it.get('mode', 'single'))
    items, findings, stats = family.run_family_check(ctx, 'C14', n_quick=2, n_thorough=10, profile=prof, extra_items=lambda rng: rerun_items(ctx)(rng) + overlap_shapes(ctx)(rng) + after_failed_shapes(ctx)(rng), detail_fn=detail)
    # in a rerun history, a run that observes foreign values or returns another result than the isolated meaning breaks C14
    for f in findings:
        it = items[f['item']]
        if it.get('mode') and f['prop'] in ('C02', 'C03', 'C15', 'C01', 'C04', 'C05', 'C07', 'C12', 'C13'):
            rp = {'kind': 'scenario', 'item': {k: it[k] for k in ('wf', 'oc', 'script', 'input', 'inputs', 'schedule', 'extra') if k in it}}
            ctx.add('C14', 'run-of-a-reused-workflow-differs-from-an-isolated-run', '%s:%s %s [history %s]' % (f['prop'], f['rule'], str(f['detail'])[:100], it['mode']), rp)
