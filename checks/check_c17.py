"""C17: no data races in the engine on any explored schedule (the schedules of the other checks re-run under the
Go race detector; the model supplies the schedules, the race detector decides memory-level races)."""
import concurrent.futures as cf
import json
import os
import random
import re
import subprocess

import check_c06
import check_c12
import check_c13
import check_c14
import family
import gen
import vlib


def races_in(stderr):
    """returns (engine races, other races): each a list of short signatures"""
    eng, other = [], []
    for blk in re.split(r'(?=WARNING: DATA RACE)', stderr or ''):
        if not blk.startswith('WARNING: DATA RACE'):
            continue
        blk = blk.split('==================')[0]
        frames = re.findall(r'^\s+(\S+?)\(\)\s*$', blk, re.M)
        engine_frames = [f for f in frames if re.match(r'go\.flow\.arcalot\.io/engine[./]', f)]
        # the racing accesses are the first frame after "Read at"/"Write at"/"Previous ... by"
        acc = re.findall(r'(?:Read|Write|Previous read|Previous write) at [^\n]*\n\s+(\S+?)\(\)\s*\n', blk)
        sig = ' <-> '.join(sorted(set(a.split('/')[-1] for a in acc))[:2])
        if any(re.match(r'go\.flow\.arcalot\.io/engine[./]', a) for a in acc) or engine_frames:
            eng.append(sig)
        else:
            other.append(sig)
    return eng, other


def finishing_together(n, repeats):
    from vlib import lit, ref, tmap
    wf = {'steps': {}, 'outputs': {}}
    script = {}
    for i in range(n):
        sid = 't%02d' % i
        wf['steps'][sid] = {'kind': 'plugin', 'pstep': 'work', 'fields': {'input': tmap({'id': lit(sid)})}}
        script[sid] = {'exec': {'out': 'success', 'delay_ms': 2}}
    wf['outputs']['success'] = tmap({'s%02d' % i: ref('steps.t%02d.outputs.success.tok' % i) for i in range(n)})
    inp = {'x': 'x', 'n': 1, 'flag': True}
    return {'wf': wf, 'oc': None, 'script': script, 'input': inp, 'inputs': [inp] * repeats, 'schedule': None,
            'extra': {'runs': [{'input': inp, 'start_delay_ms': 0} for _ in range(repeats)], 'overlap': False, 'timeout_ms': 60000}}


def stopped_while_finishing(delta_ms, repeats):
    """a step's stop condition fires in the instant in which its plugin finishes on its own: the provider's cancellation
    path (cancel signal) and its result-collecting goroutine (which retires the signal channel) run side by side"""
    from vlib import lit, ref, tmap
    wf = {'steps': {'trig': {'kind': 'plugin', 'pstep': 'work', 'fields': {'input': tmap({'id': lit('trig')})}},
                    'g': {'kind': 'plugin', 'pstep': 'work', 'fields': {'input': tmap({'id': lit('g')}), 'stop_if': ref('steps.trig.outputs.success.tok'),
                                                                        'closure_wait_timeout': lit(50)}}},
          'outputs': {'success': tmap({'r': ref('steps.g.outputs.success.tok')}), 'early': tmap({'r': ref('steps.g.outputs.cancelled_early.tok')}),
                      'closed': tmap({'c': ref('steps.g.closed.result.cancelled')}), 'crashed': tmap({'c': ref('steps.g.crashed.error.output')})}}
    script = {'trig': {'exec': {'out': 'success', 'delay_ms': 20}}, 'g': {'exec': {'out': 'success', 'delay_ms': 20 + delta_ms}}}
    inp = {'x': 'x', 'n': 1, 'flag': True}
    return {'wf': wf, 'oc': None, 'script': script, 'input': inp, 'inputs': [inp] * repeats, 'schedule': None,
            'extra': {'runs': [{'input': inp, 'start_delay_ms': 0} for _ in range(repeats)], 'overlap': False, 'timeout_ms': 60000}}


def run(ctx):
    rng = random.Random(ctx.seed * 2711 + 17)
    try:
        binary = ctx.binary(race=True)
    except RuntimeError as e:
        ctx.inconclusive('race build failed: ' + str(e)[-500:])
        return
    items = []
    prof = dict(family.PROFILES['C02'], max_steps=4)
    items += family.make_items(rng, prof, 10 if ctx.quick else 120, 1)
    items += check_c14.rerun_items(ctx)(rng)[:(6 if ctx.quick else 80)]
    # loop steps: many items finishing (and failing) at the same time under full parallelism, then the C13 shapes
    for n, par, outs in [(8, 8, ['error'] * 6 + ['success'] * 2), (6, 6, ['crash'] * 6), (6, 3, ['success'] * 6), (5, 5, ['error', 'success', 'crash', 'error', 'success'])]:
        for rep in range(1 if ctx.quick else 6):
            items.append(check_c13.loop_item(rng, n, par, outs, delays=[2] * n))
    items += check_c13.items_for(ctx)(rng)[:(4 if ctx.quick else 60)]
    # several steps finishing in the same instant, the output needing all of them: a completion handler that runs while
    # another step's notification is still on its way sees nothing running and arms the fallback detector's re-check,
    # which then wakes up next to the handler that produces the output
    for n in ([4, 6] if ctx.quick else [2, 3, 4, 6, 8, 12]):
        items.append(finishing_together(n, 10 if ctx.quick else 25))
    for delta in ([0, 1, 2] if ctx.quick else [0, 0, 1, 1, 2, 3, 5]):
        items.append(stopped_while_finishing(delta, 12 if ctx.quick else 30))
    items += check_c06.items_for(ctx)(rng)[:(10 if ctx.quick else 150)]
    scs = []
    for it in items:
        sc = gen.make_scenario(it['wf'], it['script'], it['input'], it.get('schedule'), subwfs=it.get('subwfs'), **it.get('extra', {}))
        sc['prepare_n'] = max(1, sc.get('prepare_n', 0))
        sc['prepare_parallel'] = 3
        sc['timeout_ms'] = 60000
        scs.append(sc)
        # the same scenario with the hooks inert: the event sink orders the goroutines that emit (a mutex and an atomic
        # sequence number), which can hide a race between two of them; without it only the engine's own synchronisation
        # orders them (time-based cancellation still applies, hook-point schedules do not)
        sc2 = dict(sc, nohooks=True)
        scs.append(sc2)
    env_old = os.environ.get('GORACE')
    os.environ['GORACE'] = 'halt_on_error=0 history_size=2'
    vlib.GOENV['GORACE'] = os.environ['GORACE']
    results = vlib.run_scenarios(binary, scs, ctx.work, jobs=max(2, vlib.NCPU // 2))
    # provider-API histories (overlapped closes and provides)
    nstep = 8 if ctx.quick else 150
    stepscs = [check_c12.gen_script(rng, overlap=True)[0] for _ in range(nstep)]
    stepscs += [x[0] for x in check_c12.stop_while_closing_scripts(rng, 64 if ctx.quick else 200)]
    with cf.ThreadPoolExecutor(max_workers=max(2, vlib.NCPU // 2)) as ex:
        sres = list(ex.map(lambda a: check_c12.run_step(binary, a[1], ctx.work, 'rs%04d' % a[0]), enumerate(stepscs)))
    n_eng, others = 0, set()
    total = 0
    for r, kind in [(x, 'run') for x in results] + [(x, 'step') for x in sres]:
        total += 1
        err = r['stderr'] or ''
        eng, oth = races_in(err)
        others.update(oth)
        for sig in eng:
            n_eng += 1
            ctx.add('C17', 'data-race-in-engine-code', sig, {'kind': 'race-scenario', 'how': 'verifh-race %s <scenario>' % kind, 'scenario': r['scenario'], 'report': err[err.find('WARNING: DATA RACE'):][:3000]})
        if r.get('result') is None and 'DATA RACE' not in err and r['code'] not in (0, 3):
            ctx.inconclusive('race run died: ' + err[-300:])
    ctx.level = 'exploration'
    ctx.cov(evaluations=total, distinct_nontrivial=len({json.dumps(s.get('files', s.get('actions')), sort_keys=True) for s in scs + stepscs}),
            races_outside_engine=sorted(others)[:10],
            rule='the generators and schedules of C02/C06/C13/C14/C12 (noise, cancellation at hook points, overlapped runs of one prepared workflow, loop steps, overlapped provider calls, a second concurrent preparation) executed with a -race build, each once with the recording hooks and once with the hooks inert (so that the lock of the recorder cannot order the racing goroutines); a report counts when an engine frame takes part in one of the racing accesses',
            samples=[{'workflow_yaml': scs[0]['files']['workflow.yaml'][:800], 'schedule': scs[0].get('schedule')}])
    ctx.assumptions = ['the Go race detector only sees races on executed schedules; the model contributes the schedules', 'races wholly inside dependencies or the harness are listed, not counted']
