"""C18: built-in expression functions are total, typed as declared and obey their laws."""
import json
import math
import os
import random
import re
import subprocess

import vlib

MAXI, MINI = 2 ** 63 - 1, -2 ** 63


def reps(rng, cls, kind, n):
    """concrete representatives of a class: fixed boundary values first, then seeded random members"""
    F = {
        'nan': ['NaN'], 'pinf': ['+Inf'], 'ninf': ['-Inf'], 'zero': ['0'], 'negzero': ['-0'],
        'above': ['9223372036854775808', '9.3e18', '1e19', '1e300', '1.7976931348623157e308'] + ['%r' % (2.0 ** rng.uniform(63.0, 1000)) for _ in range(n)],
        'below': ['-9223372036854777856', '-9.3e18', '-1e300'] + ['%r' % (-(2.0 ** rng.uniform(63.01, 1000))) for _ in range(n)],
        'posfrac': ['0.5', '1.5', '5.5', '0.999999', '123456.789', '0.49999999999999994', '0.5000000000000001', '4503599627370495.5'] + ['%r' % rng.uniform(0.001, 1e6) for _ in range(n)],
        'negfrac': ['-0.5', '-1.9', '-1.5', '-0.0001', '-0.49999999999999994', '-4503599627370495.5'] + ['%r' % -rng.uniform(0.001, 1e6) for _ in range(n)],
        'posint': ['1', '5', '9007199254740992', '4611686018427387904', '4503599627370497', '9007199254740991', '4503599627370496'] + [str(float(rng.randint(1, 10 ** 15))) for _ in range(n)],
        'negint': ['-1', '-5', '-9007199254740992', '-9223372036854775808', '-4503599627370497', '-9007199254740991'] + [str(float(-rng.randint(1, 10 ** 15))) for _ in range(n)],
        'tiny': ['5e-324', '1e-300', '-1e-300'], 'huge53': ['9007199254740993', '9223372036854774784'], 'half': ['0.5', '1.5', '2.5', '-0.5', '-2.5'],
    }
    I = {'min': [str(MINI)], 'max': [str(MAXI)], 'negone': ['-1'], 'zero': ['0'], 'one': ['1'], 'big53': [str(2 ** 53 + 1), str(-(2 ** 53 + 1))],
         'small': [str(rng.randint(-10 ** 6, 10 ** 6)) for _ in range(n + 2)]}
    S = {'empty': [''], 'ascii': ['hello', 'Hello World', 'a,b,,c'] + [''.join(rng.choice('abcXYZ ,;') for _ in range(rng.randint(1, 12))) for _ in range(n)],
         'upper': ['HELLO', 'ABC_DEF'], 'nonascii': ['héllo Ω', '日本語', 'straße', '\U0001F600x'], 'spaces': ['  ', ' a b '], 'sepheavy': [',,,', 'a,,b,', ',']}
    IS = {'numeric': ['5', '123456'], 'negnumeric': ['-5', '-0'], 'zeroprefixed': ['007', '-007', '0'], 'overflow': ['9223372036854775808', '99999999999999999999'],
          'negoverflow': ['-9223372036854775809']}
    FS = {'numeric': ['5', '123'], 'negnumeric': ['-5'], 'decimal': ['1.5', '-0.25', '.5', '5.'], 'exponent': ['1e10', '-2.5E-3', '1e308'], 'hexfloat': ['0x1p-2', '0X1.8p1'],
          'nanlike': ['NaN', 'nan'], 'inflike': ['Inf', '+Inf', '-inf', 'Infinity'], 'empty': [''], 'ascii': ['abc', '1.2.3', '--5'], 'underscored': ['1_000', '0x_1p0']}
    BS = {'true': ['true'], 'false': ['false'], 't': ['t'], 'f': ['f'], 'one': ['1'], 'zero': ['0'], 'mixedcase': ['True', 'FALSE', 'T', 'tRuE']}
    if kind == 'float':
        return [{'t': 'float', 'v': v} for v in F[cls]]
    if kind == 'int':
        return [{'t': 'int', 'v': v} for v in I[cls]]
    if kind == 'str':
        return [{'t': 'string', 'v': v} for v in S[cls]]
    if kind == 'intstr':
        return [{'t': 'string', 'v': v} for v in IS[cls]]
    if kind == 'floatstr':
        return [{'t': 'string', 'v': v} for v in FS[cls]]
    if kind == 'boolstr':
        return [{'t': 'string', 'v': v} for v in BS[cls]]
    if kind == 'bool':
        return [{'t': 'bool', 'v': cls == 't'}]
    if kind == 'fmt':
        return [{'t': 'string', 'v': cls}]
    if kind == 'prec':
        return [{'t': 'int', 'v': {'m1': '-1', 'p0': '0', 'p1': '1', 'p15': '15'}[cls]}]
    if kind == 'list':
        return [{'t': 'list', 'v': {'empty': [], 'ints': [1, 2, 3], 'strings': ['a', 'b'], 'nested': [[1], [2, [3]]], 'mixed': [1, 'a', {'k': 'v'}], 'long': list(range(50))}[cls]}]
    if kind == 'any':
        return [{'t': 'any', 'v': {'int': 7, 'str': 'c', 'map': {'a': 1}, 'list': [1, 2], 'bool': True}[cls]}]
    if kind == 'env':
        return [{'t': 'string', 'v': {'set': 'VERIF_ENV_SET', 'setempty': 'VERIF_ENV_EMPTY', 'unset': 'VERIF_ENV_UNSET', 'emptyname': ''}[cls]}]
    if kind == 'path':
        return [{'t': 'string', 'v': {'missing': '/nonexistent/verif/file', 'directory': '/tmp', 'emptypath': ''}[cls]}]
    raise ValueError(kind)


KINDS = {'intToFloat': ['int'], 'floatToInt': ['float'], 'intToString': ['int'], 'floatToString': ['float'], 'floatToFormattedString': ['float', 'fmt', 'prec'],
         'boolToString': ['bool'], 'stringToInt': ['intstr'], 'stringToFloat': ['floatstr'], 'stringToBool': ['boolstr'], 'ceil': ['float'], 'floor': ['float'],
         'round': ['float'], 'abs': ['float'], 'toLower': ['str'], 'toUpper': ['str'], 'splitString': ['str', 'str'], 'readFile': ['path'], 'getEnvVar': ['env', 'str'],
         'bindConstants': ['list', 'any']}


def pyfloat(v):
    return {'NaN': float('nan'), '+Inf': float('inf'), '-Inf': float('-inf'), '-0': -0.0}.get(v) if v in ('NaN', '+Inf', '-Inf', '-0') else float(v)


def same_float(a, b):
    return (math.isnan(a) and math.isnan(b)) or (a == b and math.copysign(1, a) == math.copysign(1, b)) or (a == b and a != 0)


def law(fn, tag, args, r):
    """returns None if the result obeys the law for its class, else a short reason"""
    if tag == 'value-or-error':
        return None
    if tag == 'error':
        return None if not r['ok'] else 'expected an error, got %r' % (r['v'],)
    if not r['ok']:
        return 'unexpected error: %s' % r['err'][:80]
    v = r['v']
    a = [x['v'] for x in args]
    if tag in ('maxint', 'minint'):
        want = str(MAXI if tag == 'maxint' else MINI)
        return None if v == want else 'no saturation: got %s' % v
    if tag == 'trunc':
        return None if int(v) == math.trunc(pyfloat(a[0])) else 'not truncated toward zero: %s' % v
    if tag == 'same':
        return None if int(v) == int(pyfloat(a[0])) else 'integral value changed: %s' % v
    if tag == 'zero':
        return None if v == '0' else 'got %s' % v
    if tag == 'float-nearest':
        return None if pyfloat(v) == float(int(a[0])) else 'got %s' % v
    if tag == 'decimal':
        return None if v == str(int(a[0])) else 'got %s' % v
    if tag == 'fmt-f-roundtrip':
        x = pyfloat(a[0])
        try:
            back = float(v.replace('Inf', 'inf'))
        except ValueError:
            return 'not a number: %s' % v
        return None if (math.isnan(x) and math.isnan(back)) or back == x else 'does not round-trip: %s' % v
    if tag == 'formatted':
        return None if isinstance(v, str) and v else 'empty'
    if tag == 'boolname':
        return None if v == ('true' if a[0] else 'false') else 'got %s' % v
    if tag == 'parsed-int':
        return None if int(v) == int(a[0]) else 'got %s' % v
    if tag == 'parsed-float':
        s = a[0].lower().replace('infinity', 'inf')
        want = float.fromhex(s) if 'x' in s else float(s)
        got = pyfloat(v)
        return None if (math.isnan(want) and math.isnan(got)) or want == got else 'got %s' % v
    if tag == 'parsed-bool':
        return None if v == (a[0].lower() in ('true', 't', '1')) else 'got %s' % v
    if tag in ('ceil', 'floor', 'round', 'abs'):
        x, y = pyfloat(a[0]), pyfloat(v)
        if math.isnan(x):
            return None if math.isnan(y) else 'NaN not preserved'
        if math.isinf(x):
            return None if (y == x if tag != 'abs' else y == abs(x)) else 'infinity changed'
        from fractions import Fraction
        fx = Fraction(x)
        if x == 0 and tag != 'abs':     # documented special case f(+-0) = +-0
            return None if y == 0 and math.copysign(1, y) == math.copysign(1, x) else 'zero lost its sign: got %s' % v
        if tag == 'ceil':
            return None if Fraction(y) == math.ceil(fx) else 'got %s' % v
        if tag == 'floor':
            return None if Fraction(y) == math.floor(fx) else 'got %s' % v
        if tag == 'round':    # half away from zero
            want = math.floor(abs(fx) + Fraction(1, 2)) * (1 if fx >= 0 else -1)
            return None if Fraction(y) == want else 'got %s' % v
        return None if y == abs(x) and not (y == 0 and math.copysign(1, y) < 0) else 'got %s' % v
    if tag in ('lower', 'upper'):
        s = a[0]
        want_ascii = ''.join((c.lower() if tag == 'lower' else c.upper()) if c.isascii() else '?' for c in s)
        got_ascii = ''.join(c if c.isascii() else '?' for c in v)
        if all(c.isascii() for c in s) and v != want_ascii:
            return 'got %r' % v
        return None
    if tag == 'split':
        s, sep = a
        if sep == '':
            # the definition the function is built on (Go's strings.Split): an empty separator splits after every character
            return None if list(v) == list(s) else 'an empty separator must give one piece per character, got %r' % (v,)
        return None if sep.join(v) == s and all(sep not in p for p in v) else 'got %r' % (v,)
    if tag == 'default-or-env':
        name, dflt = a
        # the default stands in only for a variable that is NOT PRESENT; one that is present with an empty value yields that value
        want = 'value-from-env' if name == 'VERIF_ENV_SET' else '' if name == 'VERIF_ENV_EMPTY' else dflt
        return None if v == want else 'got %r' % v
    if tag == 'bound':
        items, c = a
        if not isinstance(v, list) or len(v) != len(items):
            return 'length differs'
        return None
    return 'unknown tag ' + tag


def run(ctx):
    rng = random.Random(ctx.seed * 31337 + 18)
    rc, out, td = vlib.tlc(vlib.SPEC, 'Builtins', 'SPECIFICATION Spec\nCHECK_DEADLOCK FALSE\n', ctx.work, timeout_s=300, workers=1)
    vlib.rmwork(td)
    table = re.findall(r'<<"BUILTIN", "(\w+)", (<<[^>]*>>), "([\w-]+)">>', out)
    if rc != 0 or len(table) < 100:
        ctx.inconclusive('Builtins.tla failed: ' + out[-1200:])
        return
    st = vlib.tlc_stats(out)
    ctx.cov(states=st.get('distinct', 0), transitions=st.get('generated', 0), class_tuples=len(table))
    nrand = 1 if ctx.quick else 40
    calls, meta = [], []
    for fn, tup, tag in table:
        classes = re.findall(r'"([^"]+)"', tup)
        kinds = KINDS[fn]
        lists = [reps(rng, c, k, nrand) for c, k in zip(classes, kinds)]
        m = max(len(l) for l in lists)
        for i in range(m):
            args = [l[i % len(l)] for l in lists]
            calls.append({'fn': fn, 'args': args})
            meta.append((fn, tuple(classes), tag, args))
    d = os.path.join(ctx.work, 'builtins')
    os.makedirs(d, exist_ok=True)
    json.dump({'calls': calls, 'result_out': os.path.join(d, 'r.json')}, open(os.path.join(d, 'in.json'), 'w'))
    p = subprocess.run([ctx.binary(), 'builtins', os.path.join(d, 'in.json')], capture_output=True, text=True, timeout=600, env=vlib.GOENV)
    try:
        res = json.load(open(os.path.join(d, 'r.json')))
    except Exception:
        ctx.inconclusive('builtins driver failed: ' + p.stderr[-500:])
        return
    for (fn, classes, tag, args), r in zip(meta, res):
        rp = {'kind': 'builtin-call', 'how': 'verifh builtins', 'fn': fn, 'args': args, 'classes': classes, 'expect': tag, 'got': r}
        where = '%s(%s)' % (fn, ','.join(classes))
        if r.get('unknown_function'):
            ctx.add('C18', 'function-missing', fn, rp)
            continue
        if r['panic']:
            ctx.add('C18', 'function-panicked', '%s: %s' % (where, r['panic'][:100]), rp)
            continue
        if not r['deterministic']:
            ctx.add('C18', 'function-not-deterministic', where, rp)
        if r['ok'] and not r['schema_ok']:
            ctx.add('C18', 'result-outside-declared-type', '%s -> %r: %s' % (where, r['v'], r['schema_err'][:80]), rp)
        why = law(fn, tag, args, r)
        if why:
            ctx.add('C18', 'law-broken:' + tag, '%s: %s' % (where, why), rp)
    ctx.level = 'exploration'
    ctx.cov(evaluations=len(calls), distinct_nontrivial=len(table),
            rule='Builtins.tla enumerates every (function, parameter class tuple) with the required result class; each tuple is exercised with fixed boundary values and seeded random members; distinct = class tuples',
            samples=[{'fn': meta[0][0], 'classes': meta[0][1], 'expect': meta[0][2], 'args': meta[0][3], 'got': res[0]},
                     {'fn': meta[-1][0], 'classes': meta[-1][1], 'expect': meta[-1][2], 'args': meta[-1][3], 'got': res[-1]}])
    ctx.assumptions = ['laws are evaluated on representatives of each class, not on the whole class (numeric accuracy is outside the specification)',
                       'toLower/toUpper are judged on ASCII only; readFile on error paths only']
