"""C03: the run result is the one the workflow's declarative meaning prescribes."""
import itertools

import family
import gen
from check_c01 import okoc
from vlib import lit, ref, tmap


def staggered_output_failures(ctx):
    """several declared outputs that become impossible at different moments while one stays producible until the
    slowest step has finished: an output fed by two steps loses its dependencies one after the other, another output
    loses its only dependency in between.  Whatever the order of these losses, the producible output is returned."""
    def f(rng):
        items = []
        delays = [(0, 40, 80, 300), (80, 40, 0, 200), (0, 0, 0, 60), (40, 0, 80, 150)]
        if not ctx.quick:
            delays += list(itertools.permutations((0, 30, 60, 200)))[:12]
        for da, db, dc, dd in (delays[:3] if ctx.quick else delays):
            steps = {s: {'kind': 'plugin', 'pstep': 'work', 'fields': {'input': tmap({'id': lit(s)})}} for s in 'abcd'}
            wf = {'steps': steps,
                  'outputs': {'success': tmap({s: ref('steps.%s.outputs.success.tok' % s) for s in 'abcd'}),
                              'interrupted_ac': tmap({'a': ref('steps.a.outputs.alt.tok'), 'c': ref('steps.c.outputs.alt.tok')}),
                              'interrupted_b': tmap({'b': ref('steps.b.outputs.alt.tok')}),
                              'failed_d': tmap({'d': ref('steps.d.outputs.error.reason'), 'a': ref('steps.a.outputs.error.reason')})}}
            script = {s: {'exec': {'out': 'success', 'delay_ms': d}} for s, d in zip('abcd', (da, db, dc, dd))}
            items.append({'wf': wf, 'oc': {s: okoc() for s in 'abcd'}, 'script': script, 'input': {'x': 'x', 'n': 1, 'flag': True},
                          'schedule': None, 'want': ['success'], 'at': 'staggered %d/%d/%d/%d' % (da, db, dc, dd)})
        return items
    return f


def run(ctx):
    family.run_family_check(ctx, 'C03', n_quick=40, n_thorough=400, extra_items=staggered_output_failures(ctx))
