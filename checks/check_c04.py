"""C04: a step never executes if a prerequisite failed, it is disabled or stopped first."""
import family
import gen
from check_c01 import okoc
from vlib import lit, ref, tmap


def stop_shapes(rng, quick):
    """a stop condition that fires while the guarded step waits at each of its blocking points (deploy input, enabled,
    run input) or while it runs; `quick` finishes at once, `slow` later"""
    items = []
    for where in ['deploy', 'enabling', 'starting', 'running', 'never']:
        for slow_ms in ([40] if quick else [15, 40, 120]):
            g = {'input': tmap({'id': lit('g')})}
            if where != 'never':
                g['stop_if'] = ref('steps.quick.outputs.success.tok')
            if where == 'deploy':
                g['deploy'] = tmap({'deployer_name': lit('scripted'), 'tag': ref('steps.slow.outputs.success.tok')})
            elif where == 'enabling':
                g['enabled'] = ref('steps.slow.enabling.resolved.enabled')
                g['wait_for'] = ref('steps.slow.outputs.success')   # keeps the enabled value from arriving early
                g['enabled'] = gen.fexpr('$.steps.slow.outputs.success.tok != ""', ['steps.slow.outputs.success.tok'])
                del g['wait_for']
            elif where == 'starting':
                g['input'] = tmap({'id': lit('g'), 'deps': tmap({'x': ref('steps.slow.outputs.success.tok')})})
            wf = {'steps': {'quick': {'kind': 'plugin', 'pstep': 'nowork', 'fields': {'input': tmap({'id': lit('quick')})}},
                            'slow': {'kind': 'plugin', 'pstep': 'nowork', 'fields': {'input': tmap({'id': lit('slow')})}},
                            'g': {'kind': 'plugin', 'pstep': 'work', 'fields': g}},
                  'outputs': {'executed': tmap({'r': ref('steps.g.outputs.success.tok')}),
                              'stopped': tmap({'c': ref('steps.g.closed.result.cancelled'), 's': ref('steps.slow.outputs.success.tok')}),
                              'signalled': tmap({'r': ref('steps.g.outputs.cancelled_early.tok')})}}
            oc = {'quick': okoc(), 'slow': okoc(), 'g': dict(okoc(), stop=(where != 'never'))}
            script = {'quick': {'exec': {'out': 'success'}}, 'slow': {'exec': {'out': 'success', 'delay_ms': slow_ms}},
                      'g': {'exec': {'out': 'success', 'delay_ms': 60 if where == 'running' else 2}}}
            if where == 'running':
                # the stop condition depends on the slow step instead, so that it fires while g executes
                g['stop_if'] = ref('steps.slow.outputs.success.tok')
                script['slow']['exec']['delay_ms'] = 20
            items.append({'wf': wf, 'oc': oc, 'script': script, 'input': {'x': 'x', 'n': 1, 'flag': True},
                          'schedule': gen.noise_schedule(rng, max_us=300), 'at': 'stop-while-%s slow=%d' % (where, slow_ms)})
    # whatever the stop condition resolves to - an empty object, an object, zero, an empty-looking string - it has fired
    # (only the literal false does not stop a step): the guarded step is still waiting for its run input and must not start
    for vk, r in [('empty-object', 'steps.quick.starting.started'), ('object', 'steps.quick.outputs.success'), ('zero', 'steps.quick.outputs.success.n'),
                  ('stage', 'steps.quick.outputs'), ('true', 'steps.quick.enabling.resolved.enabled')]:
        g = {'input': tmap({'id': lit('g'), 'deps': tmap({'x': ref('steps.slow.outputs.success.tok')})}), 'stop_if': ref(r)}
        wf = {'steps': {'quick': {'kind': 'plugin', 'pstep': 'nowork', 'fields': {'input': tmap({'id': lit('quick')})}},
                        'slow': {'kind': 'plugin', 'pstep': 'nowork', 'fields': {'input': tmap({'id': lit('slow')})}},
                        'g': {'kind': 'plugin', 'pstep': 'work', 'fields': g}},
              'outputs': {'executed': tmap({'r': ref('steps.g.outputs.success.tok')}),
                          'stopped': tmap({'c': ref('steps.g.closed.result.cancelled'), 's': ref('steps.slow.outputs.success.tok')}),
                          'signalled': tmap({'r': ref('steps.g.outputs.cancelled_early.tok')})}}
        oc = {'quick': okoc(), 'slow': okoc(), 'g': dict(okoc(), stop=True)}
        script = {'quick': {'exec': {'out': 'success', 'n': 0}}, 'slow': {'exec': {'out': 'success', 'delay_ms': 60}},
                  'g': {'exec': {'out': 'success', 'delay_ms': 2}}}
        items.append({'wf': wf, 'oc': oc, 'script': script, 'input': {'x': 'x', 'n': 1, 'flag': True},
                      'schedule': gen.noise_schedule(rng, max_us=300), 'at': 'stop-value-%s' % vk})
    # the stop condition and the run input of g come from the same producer, and g is held just before it waits for its run
    # input: when it gets there both are ready, whichever the select picks the plugin must not start (repeated, because the
    # choice between two ready cases is random)
    for k in range(6 if quick else 24):
        g = {'input': tmap({'id': lit('g'), 'deps': tmap({'x': ref('steps.slow.outputs.success.tok')})}), 'stop_if': ref('steps.slow.outputs.success.tok')}
        wf = {'steps': {'slow': {'kind': 'plugin', 'pstep': 'nowork', 'fields': {'input': tmap({'id': lit('slow')})}},
                        'g': {'kind': 'plugin', 'pstep': 'work', 'fields': g}},
              'outputs': {'executed': tmap({'r': ref('steps.g.outputs.success.tok')}),
                          'stopped': tmap({'c': ref('steps.g.closed.result.cancelled'), 's': ref('steps.slow.outputs.success.tok')}),
                          'signalled': tmap({'r': ref('steps.g.outputs.cancelled_early.tok')})}}
        oc = {'slow': okoc(), 'g': dict(okoc(), stop=True)}
        script = {'slow': {'exec': {'out': 'success', 'delay_ms': 30}}, 'g': {'exec': {'out': 'success', 'delay_ms': 2}}}
        items.append({'wf': wf, 'oc': oc, 'script': script, 'input': {'x': 'x', 'n': 1, 'flag': True},
                      'schedule': {'stalls': [{'point': 'plugin.start.beforeRecv', 'step': 'g', 'nth': 1, 'ms': 90}]},
                      'at': 'stop-and-input-ready-together #%d' % k})
    return items


def run(ctx):
    family.run_family_check(ctx, 'C04', n_quick=30, n_thorough=400, extra_items=lambda rng: stop_shapes(rng, ctx.quick))
