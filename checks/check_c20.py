"""C20: the engine API classifies results and resolves files consistently."""
import json
import os
import random
import re

import engine_check
import gen
import vlib
from vlib import lit, ref, tmap

SUB_INPUT = {'root': 'SubIn', 'objects': {'SubIn': {'id': 'SubIn', 'properties': {'id': {'type': {'type_id': 'string'}, 'required': True}}}}}
OUT_SCHEMA = {'root': 'Out', 'objects': {'Out': {'id': 'Out', 'properties': {'v': {'type': {'type_id': 'string'}, 'required': True}}}}}


def leaf_wf():
    return {'input_schema': SUB_INPUT,
            'steps': {'w': {'kind': 'plugin', 'pstep': 'work', 'src': 'w', 'fields': {'input': tmap({'id': ref('input.id')})}}},
            'outputs': {'success': tmap({'tok': ref('steps.w.outputs.success.tok')})}}


def mid_wf(child):
    return {'input_schema': SUB_INPUT,
            'steps': {'inner': {'kind': 'foreach', 'workflow': child, 'fields': {'items': lit([{'id': 'x0'}, {'id': 'x1'}])}}},
            'outputs': {'success': tmap({'n': ref('steps.inner.outputs.success.data')})}}


def build(c):
    """files of the tree for configuration c; returns (files, main wf abstract, script)"""
    files = {}
    steps = {'a': {'kind': 'plugin', 'pstep': 'work', 'fields': {'input': tmap({'id': lit('a')})}}}
    l2, l3 = c['_l2'], c['_l3']
    sp = (lambda p: './' + p) if c.get('spelling') == 'dot' else (lambda p: p)     # how references are spelled
    if c['depth'] >= 3:
        files[l3] = leaf_wf()
        files[l2] = mid_wf(sp(l3))
    elif c['depth'] == 2:
        files[l2] = leaf_wf()
    if c['depth'] >= 2:
        steps['loop'] = {'kind': 'foreach', 'workflow': sp(l2), 'fields': {'items': lit([{'id': 'i0'}])}}
    if c['shared']:
        files['shared.yaml'] = leaf_wf()
        steps['sh1'] = {'kind': 'foreach', 'workflow': sp('shared.yaml'), 'fields': {'items': lit([{'id': 's0'}])}}
        if c['depth'] >= 3:
            files[l2]['steps']['sh2'] = {'kind': 'foreach', 'workflow': sp('shared.yaml'), 'fields': {'items': lit([{'id': 's1'}])}}
    wf = {'steps': steps,
          'outputs': {'success': tmap({'v': ref('steps.a.outputs.success.tok')}), 'error': tmap({'v': ref('steps.a.outputs.error.reason')}),
                      'other': tmap({'v': ref('steps.a.outputs.alt.tok')})}}
    if c['explicit'] != 'none':
        flag = c['explicit'] == 'flag_true'
        wf['output_schema'] = {o: {'schema': OUT_SCHEMA, 'error': flag} for o in wf['outputs']}
    files['workflow.yaml'] = wf
    script = {'a': {'exec': {'out': {'success': 'success', 'error': 'error', 'other': 'alt'}[c['out']], 'delay_ms': 15}}}
    return files, wf, script


def cli_part(ctx, out):
    """the real command-line program (cmd/arcaflow/main.go built with the scripted deployer): for every CLI case of
    FileCache.tla the exit code, what appears on the standard output (the result with the id and data of direct execution,
    the namespace table, the version, or nothing), whether the step was executed at all, and that every plugin the
    program deployed was closed again before it ended"""
    cases = []
    for m in re.finditer(r'<<"CLI", "(.*)">>', out):
        cases.append(json.loads(m.group(1).encode().decode('unicode_escape')))
    if len(cases) != 180:
        ctx.inconclusive('FileCache.tla exported %d CLI cases, expected 180' % len(cases))
        return
    rng = random.Random(ctx.seed * 131 + 7)
    if ctx.quick:
        rng.shuffle(cases)
        keep, seen = [], set()
        for c in cases:
            k = (c['c']['fault'], c['c']['explicit'])
            if k not in seen:
                seen.add(k)
                keep.append(c)
        cases = keep
    try:
        cli = vlib.build_cli(ctx.work)
    except RuntimeError as e:
        ctx.inconclusive(str(e)[-400:])
        return
    n = 0
    for k, cc in enumerate(cases):
        c = cc['c']
        fault = c['fault']
        base = os.path.join(ctx.work, 'cli%03d' % k, 'parent', 'ctx')
        os.makedirs(base)
        conf = {'depth': 1, 'layout': 'rr', 'shared': False, 'out': c['out'], 'explicit': c['explicit'], '_l2': 'l2.yaml', '_l3': 'l3.yaml'}
        files, wf, script = build(conf)
        if fault == 'run-fails':
            script['a']['exec'] = {'out': 'success', 'crash': True}
        for name, w in files.items():
            open(os.path.join(base, name), 'w').write(vlib.render_workflow(w))
        if fault == 'invalid-workflow':
            open(os.path.join(base, 'workflow.yaml'), 'w').write('version: v0.2.0\nsteps: {a: [not, a, step]}\noutputs: {}\n')
        open(os.path.join(base, 'config.yaml'), 'w').write(vlib.CLI_CONFIG)
        open(os.path.join(base, 'badconfig.yaml'), 'w').write(vlib.CLI_CONFIG + 'no_such_section: {a: 1}\n')
        open(os.path.join(base, 'input.yaml'), 'w').write('x: fromfile\n')
        open(os.path.join(base, 'badinput.yaml'), 'w').write('no_such_input_field: 1\n')
        wfarg = 'nosuch.yaml' if fault == 'missing-workflow' else 'workflow.yaml'
        cfgarg = {'missing-config': 'nosuchconfig.yaml', 'invalid-config': 'badconfig.yaml'}.get(fault, 'config.yaml')
        cwd = base if c['dir'] == 'abs' else os.path.dirname(base)
        dirarg = base if c['dir'] == 'abs' else 'ctx'
        args = ['-context', dirarg, '-workflow', wfarg, '-config', cfgarg]
        if fault == 'missing-input':
            args += ['-input', 'nosuchinput.yaml']
        elif fault == 'invalid-input':
            args += ['-input', 'badinput.yaml']
        elif fault == 'none' and k % 2 == 0:
            args += ['-input', 'input.yaml']
        if fault == 'get-namespaces':
            args += ['-get-namespaces']
        if fault == 'version':
            args = ['-version'] + (args if k % 2 == 0 else ['-context', dirarg, '-workflow', 'nosuch.yaml'])
        ledger = os.path.join(ctx.work, 'cli%03d' % k, 'ledger.txt')
        code, so, se, secs = vlib.run_cli(cli, base, script, args, cwd=cwd, ledger=ledger)
        n += 1
        tag = 'cli fault=%s out=%s explicit=%s dir=%s' % (fault, c['out'], c['explicit'], c['dir'])
        rp = {'kind': 'cli-scenario', 'how': 'verifcli %s (VERIF_CLI_SCRIPT=%s)' % (' '.join(args), json.dumps(script)), 'case': c}
        if 'panic:' in se and 'go.flow.arcalot.io/engine' in se:
            ctx.add('C20', 'process-crashed', tag + ': ' + engine_check.first_panic_line(se), rp)
            continue
        if code != cc['exit']:
            ctx.add('C20', 'cli-exit-code-differs-from-specification', '%s: exit %s want %s' % (tag, code, cc['exit']), rp)
        has_result = re.search(r'^output_id: ', so, re.M) is not None
        if cc['stdout'] == 'result':
            m = re.search(r'^output_id: (\S+)', so, re.M)
            if not m or m.group(1).strip('"') != cc['id']:
                ctx.add('C20', 'cli-prints-another-output-than-direct-execution', '%s: printed %r' % (tag, (m.group(1) if m else so[:80])), rp)
            elif 'a/%s' % {'success': 'success', 'error': 'error', 'other': 'alt'}[c['out']] not in so:
                ctx.add('C20', 'cli-prints-other-data-than-direct-execution', '%s: %s' % (tag, so[:120].replace('\n', ' ')), rp)
        elif has_result:
            ctx.add('C20', 'cli-prints-a-result-although-none-was-produced', '%s: %s' % (tag, so[:120].replace('\n', ' ')), rp)
        elif cc['stdout'] == 'namespaces' and not ('object' in so.lower() and 'namespace' in so.lower()):
            ctx.add('C20', 'cli-namespace-listing-missing', '%s: %s' % (tag, so[:120].replace('\n', ' ')), rp)
        elif cc['stdout'] == 'version' and 'Arcaflow Engine' not in so:
            ctx.add('C20', 'cli-version-missing', '%s: %s' % (tag, so[:120].replace('\n', ' ')), rp)
        elif cc['stdout'] == 'nothing' and so.strip():
            ctx.add('C20', 'cli-prints-on-stdout-although-it-failed-before-any-result', '%s: %s' % (tag, so[:120].replace('\n', ' ')), rp)
        dep, clo, ex = vlib.read_ledger(ledger)
        if ex > 0 and not cc['executes']:
            ctx.add('C20', 'cli-executed-a-step-in-a-mode-that-runs-nothing', '%s: %d executions' % (tag, ex), rp)
        if cc['executes'] and ex != 1:
            ctx.add('C20', 'cli-did-not-execute-the-step-exactly-once', '%s: %d executions' % (tag, ex), rp)
        if code != 124 and dep - clo:
            ctx.add('C05', 'plugin-still-deployed-when-the-program-ended', '%s: %d of %d deployments never closed' % (tag, len(dep - clo), len(dep)), rp)
    ctx.cov(cli_cases=n)


def run(ctx):
    rng = random.Random(ctx.seed * 4099 + 20)
    rc, out, td = vlib.tlc(vlib.SPEC, 'FileCache', 'SPECIFICATION Spec\nCHECK_DEADLOCK FALSE\n', ctx.work, timeout_s=300, workers=1)
    vlib.rmwork(td)
    confs = []
    for m in re.finditer(r'<<"CONFIG", "(.*)">>', out):
        j = json.loads(m.group(1).encode().decode('unicode_escape'))
        j['c']['_l2'], j['c']['_l3'] = j['l2'], j['l3']
        confs.append((j['c'], j['id'], j['flag'], j['exit']))
    if rc != 0 or len(confs) != 1458:
        ctx.inconclusive('FileCache.tla failed: ' + out[-1200:])
        return
    st = vlib.tlc_stats(out)
    ctx.cov(states=st.get('distinct', 0), transitions=st.get('generated', 0), configurations=len(confs))
    cli_part(ctx, out)
    if ctx.quick:
        # stratified: every (depth, layout) class is sampled
        rng.shuffle(confs)
        cls = {}
        for x in confs:
            cls.setdefault((x[0]['depth'], x[0]['layout'], x[0]['spelling']), []).append(x)
        confs = [x for k in sorted(cls) for x in cls[k][:4]]
    binary = ctx.binary()
    scs, direct, meta = [], [], []
    for k, (c, wid, wflag, wexit) in enumerate(confs):
        files, wf, script = build(c)
        base = os.path.join(ctx.work, 'tree%04d' % k)
        ctxdir = os.path.join(base, 'parent', 'ctx')
        for name, w in files.items():
            p = os.path.join(ctxdir, name)
            os.makedirs(os.path.dirname(p), exist_ok=True)
            open(p, 'w').write(vlib.render_workflow(w))
        os.makedirs(os.path.join(base, 'elsewhere'), exist_ok=True)
        # a second context directory with the same relative file names and different contents, loaded first in the same
        # process (every other configuration): what it leaves behind must not leak into the run of the real directory
        decoy = None
        if k % 2 == 1:
            decoy = os.path.join(base, 'decoy', 'ctx')
            for name, w in files.items():
                w2 = json.loads(json.dumps(w))
                for sid, st in w2['steps'].items():
                    if st['kind'] == 'plugin' and st['fields']['input']['kids'].get('id', {}).get('t') == 'lit':
                        st['fields']['input'] = tmap({'id': lit('decoy-' + sid)})
                    if st['kind'] == 'foreach':
                        st['fields']['items'] = lit([{'id': 'decoy'}])
                p = os.path.join(decoy, name)
                os.makedirs(os.path.dirname(p), exist_ok=True)
                open(p, 'w').write(vlib.render_workflow(w2))
        cwd = {'ctx': ctxdir, 'parent': os.path.join(base, 'parent'), 'elsewhere': os.path.join(base, 'elsewhere')}[c['cwd']]
        dirarg = ctxdir if c['dir'] == 'abs' else os.path.relpath(ctxdir, cwd)
        sc = {'engine': True, 'files': {}, 'main': 'workflow.yaml', 'context_dir': dirarg, 'cwd': cwd, 'script': script,
              'runs': [{'input_yaml': '{}\n'}], 'timeout_ms': 30000}
        if decoy:
            sc['pre_contexts'] = [decoy]
        scs.append(sc)
        # direct execution of the same text: prepare + Execute with an in-memory context
        d = {'files': {n: vlib.render_workflow(w) for n, w in files.items()}, 'main': 'workflow.yaml', 'script': script, 'runs': [{'input': {}}], 'timeout_ms': 30000}
        if c.get('spelling') == 'dot':
            # the in-memory context of the direct execution is keyed by the name the reference uses
            d['files'].update({'./' + n: t for n, t in list(d['files'].items()) if n != 'workflow.yaml'})
        direct.append(d)
        meta.append((c, wid, wflag, wexit))
    res_e = vlib.run_scenarios(binary, scs, ctx.work, prefix='e')
    res_d = vlib.run_scenarios(binary, direct, ctx.work, prefix='d')
    n = 0
    for (c, wid, wflag, wexit), re_, rd in zip(meta, res_e, res_d):
        tag = 'depth=%d layout=%s shared=%s out=%s explicit=%s dir=%s cwd=%s spelling=%s' % (c['depth'], c['layout'], c['shared'], c['out'], c['explicit'], c['dir'], c['cwd'], c['spelling'])
        rp = {'kind': 'engine-scenario', 'how': 'verifh run <scenario> (engine mode, files on disk)', 'config': c}
        for r in (re_, rd):
            if r['result'] is None or r['code'] != 0:
                if engine_check.engine_panic(r['stderr'] or ''):
                    ctx.add('C20', 'process-crashed', '%s: %s' % (tag, engine_check.first_panic_line(r['stderr'])), rp)
                else:
                    ctx.inconclusive('harness died (%s): %s' % (tag, (r['stderr'] or '')[-300:]))
        if re_['result'] is None or rd['result'] is None:
            continue
        n += 1
        E, D = re_['result'], rd['result']
        if E.get('prepare_err'):
            ctx.add('C20', 'files-of-the-context-directory-not-resolved', '%s: %s' % (tag, E['prepare_err'][:140]), rp)
            continue
        if D.get('prepare_err'):
            ctx.inconclusive('direct preparation failed: ' + D['prepare_err'][:200])
            continue
        er, dr = E['runs'][0], D['runs'][0]
        if er['is_err'] or dr['is_err']:
            if er['is_err'] != dr['is_err']:
                ctx.add('C20', 'engine-and-direct-execution-disagree', '%s: engine err=%r direct err=%r' % (tag, er['err'][:80], dr['err'][:80]), rp)
            else:
                ctx.add('C20', 'run-failed', '%s: %s' % (tag, er['err'][:120]), rp)
            continue
        if er['output_id'] != wid:
            ctx.add('C20', 'output-id-differs-from-specification', '%s: got %s' % (tag, er['output_id']), rp)
        if er['output_id'] != dr['output_id'] or er['flat'] != dr['flat']:
            ctx.add('C20', 'engine-and-direct-execution-disagree', '%s: %s vs %s' % (tag, er['output_id'], dr['output_id']), rp)
        if er['err_flag'] != wflag:
            ctx.add('C20', 'error-flag-differs-from-specification', '%s: flag=%s want %s' % (tag, er['err_flag'], wflag), rp)
    ctx.level = 'exploration'
    ctx.cov(evaluations=2 * n, distinct_nontrivial=n,
            rule='FileCache.tla enumerates all 1458 configurations (nesting depth x directory layout of the nested files x shared sub-workflow x producible output x explicit schema/flag x abs/rel context dir x working directory x spelling of the references) with expected id/flag; each tree is written to disk and run through engine.New/Parse/Run and, for comparison, prepared and executed directly',
            samples=[{'config': meta[0][0], 'expected_id': meta[0][1], 'expected_flag': meta[0][2]}])
    ctx.assumptions = ['the command-line program is run with the scripted deployer registered through an overlaid init(); its default deployers (podman, docker, kubernetes, python) are not exercised']
