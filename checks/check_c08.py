"""C08: every value crossing a declared interface conforms to its schema; no internal 'bug:' errors."""
import check_c13
import family


def loop_items(ctx):
    """loop steps whose items fail in every way: the loop's engine-generated failed.error / outputs.success values
    are referenced by workflow outputs and must conform to the schemas the loop's lifecycle declares"""
    def f(rng):
        items = []
        for n, par, outs in [(3, 2, ['success', 'error', 'success']), (2, 1, ['crash', 'success']), (3, 3, ['error', 'error', 'error']),
                             (1, 1, ['success']), (4, 2, ['success', 'success', 'crash', 'error'])]:
            items.append(check_c13.loop_item(rng, n, par, outs))
        items.append(check_c13.loop_item(rng, 2, 2, ['alt', 'success'], with_alt=True))
        if not ctx.quick:
            items += check_c13.items_for(ctx)(rng)[:60]
        return items
    return f


def run(ctx):
    family.run_family_check(ctx, 'C08', n_quick=40, n_thorough=400, extra_items=loop_items(ctx))
