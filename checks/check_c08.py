"""C08: every value crossing a declared interface conforms to its schema; no internal 'bug:' errors."""
import check_c13
import family


def loop_items(ctx):
    """loop steps whose items fail in every way: the loop's engine-generated failed.error / outputs.success values
    are referenced by workflow outputs and must conform to the schemas the loop's lifecycle declares"""
    def f(rng):
        items = []
        for n, par, outs in [(3, 2, ['success', 'error', 'success']), (2, 1, ['crash', 'success']), (3, 3, ['error', 'error', 'error']),
                             (1, 1, ['success']), (4, 2, ['success', 'success', 'crash', 'error'])]:
            items.append(check_c13.loop_item(rng, n, par, outs))
        items.append(check_c13.loop_item(rng, 2, 2, ['alt', 'success'], with_alt=True))
        if not ctx.quick:
            items += check_c13.items_for(ctx)(rng)[:60]
        return items
    return f


TYPED_INPUT = {'root': 'RootObject', 'objects': {'RootObject': {'id': 'RootObject', 'properties': {
    'color': {'type': {'type_id': 'enum_string', 'values': {'red': {}, 'green': {}}}, 'required': True},
    'label': {'type': {'type_id': 'string'}, 'required': True},
    'level': {'type': {'type_id': 'enum_integer', 'values': {1: {}, 2: {}}}, 'required': True},
    'count': {'type': {'type_id': 'integer'}, 'required': True},
    'ratio': {'type': {'type_id': 'float'}, 'required': True},
    'flag': {'type': {'type_id': 'bool'}, 'required': True}}}}}


def typed_collection_part(ctx):
    """Inferred schemas of collections built from expressions: for every pair of differently (or deceptively similarly)
    typed workflow inputs, the list [a, b], the list [b, a] and the map {k: a, l: b} as a workflow output and as a step
    input.  The oracle is the property itself: either preparation refuses the workflow, or every valid input yields an
    output that passes the engine's own output validation (no internal 'bug:' error)."""
    import itertools
    import gen
    import vlib
    from vlib import lit, ref, tmap, tlist
    rng = ctx  # unused
    fields = ['color', 'label', 'level', 'count', 'ratio', 'flag']
    inputs = [{'color': 'green', 'label': 'hello', 'level': 2, 'count': 7, 'ratio': 1.5, 'flag': True},
              {'color': 'red', 'label': 'green', 'level': 1, 'count': 1, 'ratio': 2.0, 'flag': False}]
    scs, names = [], []
    pairs = list(itertools.permutations(fields, 2))
    if ctx.quick:
        pairs = [p for p in pairs if set(p) & {'color', 'level'}][:14]
    for a, b in pairs:
        for shape, where in itertools.product(('list', 'map', 'list-of-maps', 'list-of-lists'), ('output', 'step-input')):
            if shape == 'list':
                coll = tlist([ref('input.' + a), ref('input.' + b)])
            elif shape == 'map':
                coll = tmap({'k': ref('input.' + a), 'l': ref('input.' + b)})
            elif shape == 'list-of-maps':       # objects with different properties
                coll = tlist([tmap({'p': ref('input.' + a)}), tmap({'p': ref('input.' + a), 'q': ref('input.' + b)})])
            else:
                coll = tlist([tlist([ref('input.' + a)]), tlist([ref('input.' + b)])])
            sin = {'id': lit('s')}
            out = {'t': ref('steps.s.outputs.success.tok')}
            if where == 'output':
                out['c'] = coll
            else:
                sin['deps'] = tmap({'c': coll})
            wf = {'input_schema': TYPED_INPUT,
                  'steps': {'s': {'kind': 'plugin', 'pstep': 'work', 'fields': {'input': tmap(sin)}}},
                  'outputs': {'success': tmap(out)}}
            for inp in inputs:
                sc = gen.make_scenario(wf, {'s': {'exec': {'out': 'success'}}}, inp, None, timeout_ms=15000)
                scs.append(sc)
                names.append('%s of (%s, %s) in %s, input %s' % (shape, a, b, where, inp['label']))
    # collections built from whole OUTPUTS of steps (objects of different shapes: a plugin's success and error outputs, an
    # engine-generated object, a loop's result): the same oracle
    import check_c13
    pieces = {'success-object': 'steps.a.outputs.success', 'error-object': 'steps.b.outputs.error', 'started': 'steps.a.starting.started',
              'enabling': 'steps.a.enabling.resolved', 'loop-result': 'steps.loop.outputs.success', 'success-field': 'steps.a.outputs.success.tok',
              'number-field': 'steps.a.outputs.success.n'}
    opairs = list(itertools.permutations(sorted(pieces), 2))
    if ctx.quick:
        opairs = [p for p in opairs if p[0] in ('success-object', 'loop-result', 'started')][:12]
    for a, b in opairs:
        for shape, where in itertools.product(('list', 'list-of-maps'), ('output', 'step-input')):
            ra, rb = pieces[a], pieces[b]
            coll = tlist([ref(ra), ref(rb)]) if shape == 'list' else tlist([tmap({'p': ref(ra)}), tmap({'p': ref(rb)})])
            sin = {'id': lit('s')}
            out = {'t': ref('steps.s.outputs.success.tok')}
            if where == 'output':
                out['c'] = coll
            else:
                sin['deps'] = tmap({'c': coll})
            wf = {'steps': {'a': {'kind': 'plugin', 'pstep': 'work', 'fields': {'input': tmap({'id': lit('a')})}},
                            'b': {'kind': 'plugin', 'pstep': 'work', 'fields': {'input': tmap({'id': lit('b')})}},
                            'loop': {'kind': 'foreach', 'workflow': 'sub.yaml', 'fields': {'items': lit([{'id': 'i0'}])}},
                            's': {'kind': 'plugin', 'pstep': 'work', 'fields': {'input': tmap(sin)}}},
                  'outputs': {'success': tmap(out)}}
            script = {'a': {'exec': {'out': 'success'}}, 'b': {'exec': {'out': 'error'}}, 's': {'exec': {'out': 'success'}}, 'w': {'exec': {'out': 'success'}}}
            sc = gen.make_scenario(wf, script, {'x': 'x', 'n': 1, 'flag': True}, None, subwfs={'sub.yaml': check_c13.sub_wf(False)}, timeout_ms=15000)
            scs.append(sc)
            names.append('%s of outputs (%s, %s) in %s, input -' % (shape, a, b, where))
    res = vlib.run_scenarios(ctx.binary(), scs, ctx.work, prefix='t')
    n_acc = 0
    for n, r in zip(names, res):
        rr = r['result']
        rp = {'kind': 'scenario-raw', 'how': 'verifh run <scenario>', 'scenario': r['scenario'], 'case': n}
        if rr is None:
            import engine_check
            if engine_check.engine_panic(r['stderr'] or ''):
                ctx.add('C07', 'process-crashed-during-run', engine_check.first_panic_line(r['stderr']), rp)
            else:
                ctx.inconclusive('harness died: ' + (r['stderr'] or '')[-200:])
            continue
        if rr.get('prepare_err'):
            continue        # refused: the property holds vacuously
        n_acc += 1
        run = rr['runs'][0]
        if run['is_err'] and 'bug:' in run['err']:
            ctx.add('C08', 'internal-bug-error-returned', '%s: %s' % (n.split(', input')[0], run['err'][:120]), rp)
    ctx.cov(typed_collection_cases=len(scs), typed_collection_accepted=n_acc)


def function_result_part(ctx):
    """results of built-in functions as workflow outputs and step inputs: the schema inferred for the expression is the
    function's declared result type, so a result outside that type surfaces as an internal 'bug:' error of an accepted
    workflow (extreme, tiny, negative and non-integral numbers; the oracle is the property itself)"""
    import gen
    import vlib
    from vlib import lit, ref, tmap, fexpr
    exprs = ['floatToString($.input.ratio)', 'intToString($.input.count)', 'boolToString($.input.flag)', 'floatToFormattedString($.input.ratio, "e", 3)',
             'floatToFormattedString($.input.ratio, "f", -1)', 'intToFloat($.input.count)', 'floatToInt($.input.ratio)', 'toUpper($.input.label)',
             'splitString($.input.label, "")', 'stringToInt(intToString($.input.count))', 'stringToFloat(floatToString($.input.ratio))',
             'ceil($.input.ratio)', 'round($.input.ratio)', 'abs($.input.ratio)']
    ratios = [1000000.0, 123456789.25, 0.00001, -2.5e-7, 1.5, -0.0, 1e21] if not ctx.quick else [1000000.0, 0.00001, 1.5, 1e21]
    scs, names = [], []
    for r in ratios:
        inp = {'color': 'green', 'label': 'Hello', 'level': 2, 'count': 9007199254740993 if r > 1e9 else -7, 'ratio': r, 'flag': r > 1}
        wf = {'input_schema': TYPED_INPUT,
              'steps': {'s': {'kind': 'plugin', 'pstep': 'work', 'fields': {'input': tmap({'id': lit('s'), 'deps': tmap({'f%d' % k: fexpr(e, ['input']) for k, e in enumerate(exprs)})})}}},
              'outputs': {'success': tmap(dict({'t': ref('steps.s.outputs.success.tok')}, **{'f%d' % k: fexpr(e, ['input']) for k, e in enumerate(exprs)}))}}
        scs.append(gen.make_scenario(wf, {'s': {'exec': {'out': 'success'}}}, inp, None, timeout_ms=15000))
        names.append('function results for ratio=%r' % r)
    res = vlib.run_scenarios(ctx.binary(), scs, ctx.work, prefix='f')
    for n, r in zip(names, res):
        rr = r['result']
        rp = {'kind': 'scenario-raw', 'how': 'verifh run <scenario>', 'scenario': r['scenario'], 'case': n}
        if rr is None:
            import engine_check
            if engine_check.engine_panic(r['stderr'] or ''):
                ctx.add('C07', 'process-crashed-during-run', engine_check.first_panic_line(r['stderr']), rp)
            else:
                ctx.inconclusive('harness died: ' + (r['stderr'] or '')[-200:])
            continue
        if rr.get('prepare_err'):
            ctx.inconclusive('the function-result workflow was refused: ' + rr['prepare_err'][:200])
            continue
        run = rr['runs'][0]
        if run['is_err'] and 'bug:' in run['err']:
            ctx.add('C08', 'internal-bug-error-returned', '%s: %s' % (n, run['err'][:160]), rp)
    ctx.cov(function_result_cases=len(scs))


def run(ctx):
    typed_collection_part(ctx)
    function_result_part(ctx)
    family.run_family_check(ctx, 'C08', n_quick=40, n_thorough=400, extra_items=loop_items(ctx))
