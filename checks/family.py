"""Engine-level property family: one driver, one profile per property."""
import copy
import json
import os
import random

import engine_check
import gen
import vlib

ASSUME = [
    'plugins are scripted in-process ATP servers behind a scripted deployer; real container deployers are not exercised',
    'a plugin step function returns when its server context is cancelled (as a killed container would)',
    'Dgraph.tla mirrors go.arcalot.io/dgraph v1.7.0; the library itself is outside /repo',
]

PROFILES = {
    'C02': dict(max_steps=5, p_tag=0.15, p_waitfor=0.35, p_deployexpr=0.25, p_enabled=0.2, p_sum=0.6, p_loop=0.2),
    'C03': dict(max_steps=4, p_tag=0.1, p_multi=0.9, p_error=0.25, p_crash=0.12, p_deployfail=0.12, p_sum=0.5, p_loop=0.25),
    'C04': dict(max_steps=5, p_tag=0.05, p_enabled=0.5, p_error=0.3, p_crash=0.15, p_deployfail=0.15, p_waitfor=0.3, p_stop=0.35),
    'C08': dict(max_steps=4, p_tag=0.2, engine_outputs=True, p_error=0.2, p_crash=0.2, p_deployfail=0.2, p_enabled=0.4, p_loop=0.25),
    'C15': dict(max_steps=4, min_steps=2, p_tag=0.7, p_error=0.25, p_alt=0.2, p_enabled=0.3, p_wait2=0.6, p_deployfail=0.1),
}


def make_items(rng, profile, n, schedules):
    items = []
    for i in range(n):
        wf, oc, script, inp = gen.gen_workflow(rng, profile)
        subwfs = wf.pop('_subwfs', None)
        for k in range(schedules):
            sch = gen.noise_schedule(rng, max_us=rng.choice([100, 400, 1500]), pct=rng.choice([20, 40]))
            it = {'wf': wf, 'oc': oc, 'script': script, 'input': inp, 'schedule': sch, 'pure': not profile.get('impure')}
            if subwfs:
                it['subwfs'] = subwfs
            items.append(it)
    return items


def selftest(ctx, items, binary):
    """Binding self-test: corrupt one observed field of a recorded trace / drop one event; TLC must object."""
    it = None
    for x in items:
        if x.get('_result') and x['_result'].get('runs') and not x['_result'].get('watchdog') and len(x['wf']['steps']) >= 1:
            it = x
            break
    if it is None:
        ctx.inconclusive('self-test: no usable trace')
        return
    class R(dict):
        pass
    r = {'trace': os.path.join(it['_dir'], 'trace.ndjson')}
    cs = engine_check.cases_from_result(r, dict({'workflow.yaml': it['wf']}, **(it.get('subwfs') or {})), [it['input']])
    if not cs:
        ctx.inconclusive('self-test: no case')
        return
    base = engine_check.strip_case(cs[0])
    c1 = copy.deepcopy(base)
    done = False
    for e in c1['events']:   # corrupt a value a consumer received (the literal id every step input carries)
        if e['ev'] == 'Eval':
            for x in e['data']:
                if x['p'] == ['input', 'id']:
                    x['v'] = x['v'] + '~corrupted'
                    done = True
                    break
        if done:
            break
    c2 = copy.deepcopy(base)
    dropped = False
    consumers = {}   # consumer node -> nodes it plainly requires

    def walk(t, acc):
        if t['t'] == 'ref':
            acc.update(t['refs'])
        elif t['t'] == 'map':
            for v in t['kids'].values():
                walk(v, acc)
        elif t['t'] == 'list':
            for v in t['kids']:
                walk(v, acc)
    stage_of = {'input': 'starting', 'wait_for': 'starting', 'deploy': 'deploy', 'enabled': 'enabling', 'stop_if': 'cancelled'}
    for sid, st in base['wf']['steps'].items():
        for f, t in st['fields'].items():
            walk(t, consumers.setdefault('steps.%s.%s' % (sid, stage_of.get(f, 'starting')), set()))
    for oid, t in base['wf']['outputs'].items():
        walk(t, consumers.setdefault('outputs.' + oid, set()))
    evaluated = [e['node'] for e in c2['events'] if e['ev'] == 'Eval']
    needed = set()
    for n in evaluated:
        needed |= {x for x in consumers.get(n, ()) if x != 'input'}
    for i, e in enumerate(c2['events']):   # drop the resolution of a produced output that an evaluated consumer needs
        if e['ev'] == 'Resolve' and e['status'] == 'R' and e['node'] in needed:
            del c2['events'][i]
            dropped = True
            break
    ok, v, st, out = vlib.validate_cases([c1, c2], ctx.work)
    if not ok:
        ctx.inconclusive('self-test: TLC failed: ' + out[-800:])
        return
    hit1 = any(x[3] == 1 for x in v)
    hit2 = any(x[3] == 2 for x in v)
    ctx.cov(binding_selftest={'corrupted_value_rejected': bool(hit1) if done else 'n/a',
                              'dropped_event_rejected': bool(hit2) if dropped else 'n/a'})
    if (done and not hit1) or (dropped and not hit2):
        ctx.inconclusive('self-test: a corrupted trace was accepted (binding broken)')


def run_family_check(ctx, pid, n_quick, n_thorough, schedules_quick=1, schedules_thorough=3, profile=None, extra_items=None, detail_fn=None):
    rng = random.Random(ctx.seed * 7919 + sum(map(ord, pid)))
    profile = profile or PROFILES[pid]
    n = n_quick if ctx.quick else n_thorough
    sched = schedules_quick if ctx.quick else schedules_thorough
    binary = ctx.binary()
    items = make_items(rng, profile, n, sched)
    n_generated = len(items)
    if extra_items:
        items += extra_items(rng)
    findings, stats = engine_check.run_family(binary, ctx.work, items)
    for m in stats['inconclusive']:
        ctx.inconclusive(m)
    for f in findings:
        it = items[f['item']]
        if f['prop'] == 'GEN' and f['item'] >= n_generated and not it.get('may_be_rejected'):
            # a hand-written scenario is a well-formed workflow by construction: when the engine refuses it, the scenario
            # checked nothing - that must not pass silently (the engine, or the scenario, changed)
            ctx.inconclusive('hand-written scenario #%d was rejected at preparation, so it exercised nothing: %s' % (f['item'] - n_generated, f['detail'][:300]))
        rp = {'kind': 'scenario', 'item': {k: it[k] for k in ('wf', 'oc', 'script', 'input', 'schedule', 'extra') if k in it},
              'want': it.get('_want'), 'got': it.get('_got'), 'line': f.get('line')}
        if it.get('subwfs'):
            rp['item']['subwfs'] = it['subwfs']
        ctx.add(f['prop'], f['rule'], detail_fn(f, it) if detail_fn else f['detail'], rp)
    distinct = len({json.dumps([vlib.strip_wf(it['wf']), it['oc'], it.get('at') or it.get('stall') or ''], sort_keys=True) for it in items})
    ctx.cov(evaluations=stats['runs'], distinct_nontrivial=distinct,
            states=stats.get('meaning_states', 0) + stats.get('trace_states', 0),
            transitions=stats.get('meaning_generated', 0) + stats.get('trace_states', 0),
            traces_validated_against_impl=stats['traces'],
            rule='seeded generator (lib/gen.py) of abstract workflows x outcome vectors x noise schedules; distinct = distinct (workflow, outcome vector, injected stall/cancel site) triples',
            events_validated=stats['events'])
    samp = []
    for it in items[:2]:
        samp.append({'workflow_yaml': vlib.render_workflow(it['wf']), 'outcomes': it['oc'], 'meaning': it.get('_want'), 'engine': it.get('_got')})
    ctx.cov(samples=samp)
    ctx.assumptions = ASSUME
    selftest(ctx, items, binary)
    return items, findings, stats
