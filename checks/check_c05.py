"""C05: nothing left running or deployed after a run or a parse returns."""
import json
import os
import random
import re

import family
import gen
import vlib
from check_c01 import okoc, fanin
from vlib import lit, ref, tmap


def probe_part(ctx):
    """SchemaProbe.tla enumerates the fault vectors of LoadSchema; each is replayed on the real code."""
    cfg = 'SPECIFICATION Spec\nINVARIANTS NothingLeftDeployed ErrorIffFault\nCONSTRAINT Export\nCHECK_DEADLOCK FALSE\n'
    rc, out, td = vlib.tlc(vlib.SPEC, 'SchemaProbe', cfg, ctx.work, timeout_s=120, workers=1)
    vlib.rmwork(td)
    st = vlib.tlc_stats(out)
    vectors = []
    for line in out.splitlines():
        m = re.match(r'<<"PROBE", "(.*)", (TRUE|FALSE), (TRUE|FALSE), "(\w+)">>$', line.strip())
        if m:
            f = json.loads(m.group(1).encode().decode('unicode_escape'))
            vectors.append((f, m.group(2) == 'TRUE', m.group(3) == 'TRUE', m.group(4)))
    if rc != 0 or len(vectors) < 16:
        ctx.inconclusive('SchemaProbe.tla: TLC failed or invariant violated in the model: ' + out[-1500:])
        return
    ctx.cov(states=st.get('distinct', 0), transitions=st.get('generated', 0))
    wf = {'steps': {'a': {'kind': 'plugin', 'pstep': 'work', 'fields': {'input': tmap({'id': lit('a')})}}},
          'outputs': {'success': tmap({'r': ref('steps.a.outputs.success.tok')})}}
    seen = set()
    scs = []
    vs = []
    for f, dep, clo, res in vectors:
        key = json.dumps(f, sort_keys=True)
        if key in seen:
            continue
        seen.add(key)
        pd = {'fail': f['deploy'], 'fail_read': f['read'], 'fail_write_after': 1 if f['atpclose'] else 0, 'fail_close': f['connclose']}
        scs.append(gen.make_scenario(wf, {'a': {'probe_deploy': pd, 'exec': {'out': 'success'}}}, {'x': 'x', 'n': 1, 'flag': True}, timeout_ms=20000))
        vs.append((f, dep, clo, res))
    results = vlib.run_scenarios(ctx.binary(), scs, ctx.work, prefix='probe')
    n = 0
    for (f, dep, clo, res), r in zip(vs, results):
        if r['result'] is None:
            ctx.inconclusive('probe scenario died: ' + (r['stderr'] or '')[-300:])
            continue
        n += 1
        evs = vlib.read_trace(r['trace'])
        opened = {e['conn'] for e in evs if e['ev'] == 'XDeploy' and e.get('phase') == 'probe'}
        closed = {e['conn'] for e in evs if e['ev'] == 'XConnClose' and e.get('phase') == 'probe'}
        faults = '+'.join(k for k in ('deploy', 'read', 'atpclose', 'connclose') if f[k]) or 'none'
        rp = {'kind': 'scenario', 'item': {'wf': wf, 'oc': None, 'script': r['scenario']['script'], 'input': {'x': 'x', 'n': 1, 'flag': True}}}
        if opened - closed:
            ctx.add('C05', 'schema-probe-deployment-left-open', 'faults ' + faults, rp)
        for lk in (r['result'].get('leaks') or []):
            ctx.add('C05', 'goroutine-left-after-parse', 'faults %s: %s' % (faults, family.engine_check.leak_site(lk)), rp)
        got = 'error' if r['result'].get('prepare_err') else 'ok'
        # a connection whose reads fail cannot get as far as the later fault points: the model's verdict for the prefix applies
        if got != res and not (f['read'] or f['deploy']):
            ctx.add('DRIFT', 'probe-result-differs-from-model', 'faults %s got %s want %s' % (faults, got, res))
    ctx.cov(evaluations=n, probe_fault_vectors=n)


def cancel_items(rng, quick):
    """runs that end in every way: success, error, crash, deploy failure, cancellation at assorted points"""
    items = []
    wf = {'steps': {'a': {'kind': 'plugin', 'pstep': 'work', 'fields': {'input': tmap({'id': lit('a')}), 'closure_wait_timeout': lit(100)}},
                    'b': {'kind': 'plugin', 'pstep': 'nowork', 'fields': {'input': tmap({'id': lit('b'), 'deps': tmap({'x': ref('steps.a.outputs.success.tok')})})}},
                    'c': {'kind': 'plugin', 'pstep': 'work', 'fields': {'input': tmap({'id': lit('c')}), 'closure_wait_timeout': lit(100)}}},
          'outputs': {'success': tmap({'r': ref('steps.b.outputs.success.tok'), 'c': ref('steps.c.outputs.success.tok')})}}
    points = ['ev:XDeployBegin', 'ev:XDeploy', 'ev:SConn', 'ev:SProv', 'ev:XExecStart', 'ev:SExec', 'plugin.run.beforeSelect',
              'plugin.enable.beforeRecv', 'plugin.start.beforeRecv', 'plugin.deploy.beforeDeploy', 'ev:OutSend', 'ev:HEnter']
    for pt in points if not quick else points[:8]:
        for step in ['a', 'b', 'c']:
            script = {'a': {'exec': {'out': 'success', 'delay_ms': 20}, 'deploy': {'delay_ms': 5}},
                      'b': {'exec': {'hang': True}}, 'c': {'exec': {'hang': True, 'on_cancel': rng.choice(['', 'ignore'])}}}
            sch = {'triggers': [{'point': pt, 'step': step, 'nth': 1, 'action': 'cancel', 'run': 0}],
                   'noise_seed': rng.randint(1, 1 << 30), 'noise_max_us': 200}
            items.append({'wf': wf, 'oc': {'a': okoc(), 'b': okoc(beh='hang'), 'c': okoc(beh='hang')}, 'script': script,
                          'input': {'x': 'x', 'n': 1, 'flag': True}, 'schedule': sch, 'cancel': True, 'nomeaning': True,
                          'extra': {'timeout_ms': 25000, 'runs': [{'input': {'x': 'x', 'n': 1, 'flag': True}, 'cancel_after_ms': 400}]}})
    return items


def loop_running_items(rng, quick):
    """the run ends by itself while a loop step is still inside its sub-workflows: (a) the output does not need the
    loop, (b) another step fails and makes the only output impossible, (c) the caller cancels. Everything the loop
    started (item goroutines, sub-runs, their deployments) must be gone when Execute returns."""
    import check_c13
    items = []
    for kind in ['output-without-loop', 'other-step-fails', 'cancelled']:
        for n, par in ([(2, 2)] if quick else [(1, 1), (2, 2), (4, 2)]):
            it = check_c13.loop_item(rng, n, par, ['success'] * n, delays=[30] * n)
            it['script']['w']['deploy'] = {'delay_ms': 300}      # the sub-workflow's step is still deploying when the parent ends
            wf = it['wf']
            wf['steps']['quick'] = {'kind': 'plugin', 'pstep': 'work', 'src': 'quick', 'fields': {'input': tmap({'id': lit('quick')})}}
            it['oc']['quick'] = okoc()
            if kind == 'output-without-loop':
                it['script']['quick'] = {'exec': {'out': 'success', 'delay_ms': 40}}
                wf['outputs'] = {'success': tmap({'q': ref('steps.quick.outputs.success.tok')})}
                it['want'] = ['success']
            elif kind == 'other-step-fails':
                it['script']['quick'] = {'exec': {'out': 'error', 'delay_ms': 40}}
                wf['outputs'] = {'success': tmap({'q': ref('steps.quick.outputs.success.tok'), 'd': ref('steps.loop.outputs.success.data')})}
                it['want'] = ['error']
            else:
                it['script']['quick'] = {'exec': {'hang': True}}
                wf['outputs'] = {'success': tmap({'q': ref('steps.quick.outputs.success.tok'), 'd': ref('steps.loop.outputs.success.data')})}
                it['cancel'] = True
                it['extra'] = {'timeout_ms': 30000, 'runs': [{'input': it['input'], 'cancel_after_ms': 100}]}
            it.pop('expect_items', None)
            it['nomeaning'] = True
            it['schedule'] = None
            it['at'] = 'loop-running/%s n=%d par=%d' % (kind, n, par)
            items.append(it)
    return items


def cli_part(ctx):
    """the real command-line program (cmd/arcaflow/main.go built with the scripted deployer) on every way it can end -
    result printed, run failed, invalid input, namespaces listed without a run, invalid workflow, interrupted while its
    step executes (a plugin that reacts to the cancel signal, one that ignores it): the scripted deployer's ledger must
    show every deployment closed again when the process has ended"""
    try:
        cli = vlib.build_cli(ctx.work)
    except RuntimeError as e:
        ctx.inconclusive(str(e)[-400:])
        return
    wf = {'steps': {'a': {'kind': 'plugin', 'pstep': 'work', 'fields': {'input': tmap({'id': lit('a')}), 'closure_wait_timeout': lit(150)}},
                    'b': {'kind': 'plugin', 'pstep': 'work', 'fields': {'input': tmap({'id': lit('b'), 'deps': tmap({'t': ref('steps.a.outputs.success.tok')})})}}},
          'outputs': {'success': tmap({'v': ref('steps.b.outputs.success.tok')})}}
    cases = [('result', {'out': 'success', 'delay_ms': 20}, [], None), ('run-fails', {'out': 'success', 'crash': True}, [], None),
             ('error-output', {'out': 'error'}, [], None),
             ('invalid-input', {'out': 'success'}, ['-input', 'badinput.yaml'], None), ('namespaces', {'out': 'success'}, ['-get-namespaces'], None),
             ('interrupt-reacts', {'hang': True}, [], 0.4), ('interrupt-ignored', {'hang': True, 'on_cancel': 'ignore'}, [], 0.4)]
    n = 0
    for k, (name, ex, more, sigint) in enumerate(cases):
        base = os.path.join(ctx.work, 'clic05_%d' % k)
        os.makedirs(base)
        open(os.path.join(base, 'workflow.yaml'), 'w').write(vlib.render_workflow(wf))
        open(os.path.join(base, 'config.yaml'), 'w').write(vlib.CLI_CONFIG)
        open(os.path.join(base, 'badinput.yaml'), 'w').write('no_such_input_field: 1\n')
        ledger = os.path.join(base, 'ledger.txt')
        code, so, se, secs = vlib.run_cli(cli, base, {'a': {'exec': ex}, 'b': {'exec': {'out': 'success'}}},
                                          ['-context', base, '-workflow', 'workflow.yaml', '-config', 'config.yaml'] + more,
                                          timeout=30, sigint_after=sigint, ledger=ledger)
        n += 1
        rp = {'kind': 'cli-scenario', 'how': 'verifcli %s, step a: %s%s' % (' '.join(more), json.dumps(ex), (', SIGINT after %s s' % sigint) if sigint else '')}
        if code == 124:
            ctx.inconclusive('command-line case %s did not end within 30 s' % name)
            continue
        dep, clo, nex = vlib.read_ledger(ledger)
        if not dep:
            ctx.inconclusive('command-line case %s: the ledger shows no deployment at all (exit %s): %s' % (name, code, se[-300:]))
            continue
        if dep - clo:
            ctx.add('C05', 'plugin-still-deployed-when-the-program-ended', 'cli %s (exit %s): %d of %d deployments never closed' % (name, code, len(dep - clo), len(dep)), rp)
    ctx.cov(cli_cases=n)


def run(ctx):
    import engine_model
    engine_model.model_part(ctx, 'C05')
    probe_part(ctx)
    cli_part(ctx)
    prof = dict(max_steps=4, p_tag=0.1, p_error=0.2, p_crash=0.2, p_deployfail=0.2, p_enabled=0.4, p_multi=0.5)

    def extra(rng):
        it = cancel_items(rng, ctx.quick)
        it.append(fanin(rng, 6, 'error', 'hang'))
        it.append(fanin(rng, 6, 'crash', 'slow', handler=False))
        it += loop_running_items(rng, ctx.quick)
        return it
    family.run_family_check(ctx, 'C05', n_quick=20, n_thorough=250, profile=prof, extra_items=extra)
