"""Driver shared by the engine-level properties: generate (workflow, outcome) cases, compute their declarative
meaning with TLC (Meaning.tla), run the real engine on them under injected schedules, validate every recorded trace
with TLC (EngineTrace.tla), and compare results with the meaning.  Produces a list of findings
{prop, rule, detail, scenario, ...}; verdict policy (known findings, exit codes) lives in bin/check."""
import json
import os
import random
import re
import time

import gen
from vlib import *


def engine_outcome(rr):
    if rr is None:
        return 'noreturn'
    if rr.get('is_err'):
        return 'error'
    return rr.get('output_id') or 'error'


def sub_summary(evn):
    """what one sub-run returned: (ok, output id, leaves of the output)"""
    last_eval = {}
    out_leaves = []
    ret = None
    for e in evn:
        if e['ev'] == 'Eval':
            last_eval[e['node']] = e['data']
        elif e['ev'] == 'OutSend':
            out_leaves = last_eval.get('outputs.' + e['id'], [])
        elif e['ev'] == 'Return':
            ret = e
    if ret is None:
        return {'ok': False, 'id': 'nil', 'leaves': [], 'err': 'nil'}
    if ret['iserr']:
        # the recorder keeps the first 300 characters of an error text; a shorter text is complete
        err = ret.get('err') or 'nil'
        return {'ok': False, 'id': 'nil', 'leaves': [], 'err': err if len(err) < 300 else 'nil'}
    return {'ok': True, 'id': ret['id'], 'leaves': out_leaves, 'err': 'nil'}


def cases_from_result(r, wf_by_file, inputs, main='workflow.yaml', sub_inputs=None, expect_items=None, pure=False):
    """turn one scenario result into TLC cases (one per engine run found in the trace); sub-runs of foreach steps are
    cases of their own (with the sub-workflow's abstract record) and are summarised in the parent's `subs` table"""
    evs = read_trace(r['trace'])
    runs, objrun = split_runs(evs)
    ost = obj_steps(evs)
    cases = []
    by_run = {}
    normed = {}
    for ru in runs:
        normed[ru['run']] = norm_events(ru['events'], ost)
    # foreach step object -> workflow file of its items
    def sub_file(parent_file, step):
        st = wf_by_file[parent_file]['steps'].get(step)
        return st.get('workflow') if st else None
    file_of = {}
    for ru in runs:
        if ru['parent'] is None:
            file_of[ru['run']] = main
    changed = True
    while changed:
        changed = False
        for ru in runs:
            if ru['run'] in file_of or ru['parent'] is None:
                continue
            pobj, i = ru['parent']
            prun = objrun.get(pobj)
            if prun in file_of:
                f = sub_file(file_of[prun], ost.get(pobj))
                if f is not None:
                    file_of[ru['run']] = f
                    changed = True
    subs = {}   # parent run -> step -> list of (i, summary)
    for ru in runs:
        if ru['parent'] is None:
            continue
        pobj, i = ru['parent']
        prun = objrun.get(pobj)
        subs.setdefault(prun, {}).setdefault(ost.get(pobj), []).append((i, sub_summary(normed[ru['run']]), ru))
    # plugins of (transitive) item runs that are still executing when a run returns: the run id of every item run's
    # ancestors, and per run the position of its Return event
    parent_run = {ru['run']: (objrun.get(ru['parent'][0]) if ru['parent'] is not None else None) for ru in runs}
    ret_seq = {}
    for ru in runs:
        for e in ru['events']:
            if e['ev'] == 'Return':
                ret_seq[ru['run']] = e['seq']
    sub_live = {ru['run']: 0 for ru in runs}
    for ru in runs:
        anc, cur = [], parent_run.get(ru['run'])
        while cur is not None and cur not in anc:
            anc.append(cur)
            cur = parent_run.get(cur)
        if not anc:
            continue
        for a in anc:
            if a not in ret_seq:
                continue
            live = set()
            for e in ru['events']:
                if e['seq'] > ret_seq[a]:
                    break
                if e['ev'] == 'XExecStart':
                    live.add(e.get('conn'))
                elif e['ev'] in ('XExecEnd', 'XExecAbort'):
                    live.discard(e.get('conn'))
            sub_live[a] += len(live)
    for ru in runs:
        f = file_of.get(ru['run'])
        if f is None:
            continue
        if ru['parent'] is None:
            idx = ru['runidx'] if ru['runidx'] is not None else 0
            inp = inputs[idx] if idx < len(inputs) else inputs[0]
            inleaves = gen.input_leaves(inp)
        else:
            inleaves = None
            # the item this sub-run got: the Eval of the parent's execute stage lists the items
            pobj, i = ru['parent']
            prun = objrun.get(pobj)
            pst = ost.get(pobj)
            for e in normed.get(prun, []):
                if e['ev'] == 'Eval' and e['node'] == 'steps.%s.execute' % pst:
                    pre = ['items', str(i)]
                    inleaves = [{'p': x['p'][2:], 'v': x['v']} for x in e['data'] if x['p'][:2] == pre]
            if inleaves is None:
                inleaves = []
        stab = {}
        for st, lst in subs.get(ru['run'], {}).items():
            lst = sorted(lst, key=lambda x: x[0])
            stab[st] = [{'i': i, 'ok': s['ok'], 'id': s['id'], 'leaves': s['leaves'], 'err': s['err']} for i, s, _ in lst]
        evn = normed[ru['run']]
        cases.append({'wf': strip_wf(wf_by_file[f]), 'input': inleaves, 'noreturn': False, 'subs': stab,
                      'expectItems': (expect_items or {}) if ru['parent'] is None else {},
                      'declPar': declared_parallelism(wf_by_file[f]), 'pure': bool(pure) and ru['parent'] is None,
                      'closure': declared_closure_timeouts(wf_by_file[f]), 'subLiveAtReturn': sub_live.get(ru['run'], 0),
                      'events': evn, '_run': ru['run'], '_returned': any(e['ev'] == 'Return' for e in evn), '_file': f})
    return cases


def declared_closure_timeouts(wf):
    """plugin step -> the time (ms) the workflow text gives its plugin to react to the cancel signal (documented default
    5000); steps whose timeout is an expression are left out"""
    out = {}
    for sid, d in wf['steps'].items():
        if d['kind'] != 'plugin':
            continue
        t = d['fields'].get('closure_wait_timeout')
        if t is None:
            out[sid] = 5000
        elif t.get('t') == 'lit' and isinstance(t.get('value'), int) and not isinstance(t.get('value'), bool):
            out[sid] = t['value']
    return out


def declared_parallelism(wf):
    """foreach step -> the parallelism its text declares (documented default 1); loops whose bound is an expression are left out"""
    out = {}
    for sid, d in wf['steps'].items():
        if d['kind'] != 'foreach':
            continue
        t = d['fields'].get('parallelism')
        if t is None:
            out[sid] = 1
        elif t.get('t') == 'lit' and isinstance(t.get('value'), int):
            out[sid] = t['value']
    return out


def strip_case(c):
    return {k: v for k, v in c.items() if not k.startswith('_')}


class Finding(dict):
    pass


def run_family(binary, work, items, jobs=None, batch=6, meaning_needed=True, log=None):
    """items: list of dicts {wf, oc, script, input, schedule, name, extra(scenario overrides)}.
    Returns (findings, stats).  Each finding: {prop, rule, detail, item (index), where}."""
    t0 = time.time()
    stats = {'items': len(items)}
    findings = []
    inconclusive = []
    # 1. meaning
    uniq = {}
    mcases = []
    for it in items:
        if it.get('want') is not None or it.get('nomeaning') or len(it['wf']['steps']) > 6:
            it['_m'] = None
            continue
        key = json.dumps([strip_wf(it['wf']), it['oc']], sort_keys=True)
        if key not in uniq:
            uniq[key] = len(mcases)
            mcases.append({'wf': strip_wf(it['wf']), 'oc': it['oc']})
        it['_m'] = uniq[key]
    mres = None
    if meaning_needed and mcases:
        ok, mres, mst, mout = meaning(mcases, work, workers=min(8, NCPU), timeout_s=300)
        stats['meaning_states'] = mst.get('distinct', 0)
        stats['meaning_generated'] = mst.get('generated', 0)
        stats['meaning_cases'] = len(mcases)
        if not ok:
            inconclusive.append('Meaning.tla run failed: ' + mout[-1500:])
            mres = None
    # 2. real runs
    scs = []
    for it in items:
        sc = gen.make_scenario(it['wf'], it['script'], it['input'], it.get('schedule'), subwfs=it.get('subwfs'), **it.get('extra', {}))
        scs.append(sc)
    results = run_scenarios(binary, scs, work, jobs=jobs)
    stats['runs'] = len(results)
    # 3. traces -> cases
    allcases = []
    owner = []
    for i, (it, r) in enumerate(zip(items, results)):
        res = r['result']
        it['_result'] = res
        it['_dir'] = r['dir']
        if r['code'] not in (0, 3) or res is None:
            # process died: panic / fatal error
            tail = (r['stderr'] or '')[-1500:]
            kind = 'process-crashed'
            full = r['stderr'] or ''
            if engine_panic(full):
                findings.append(Finding(prop='C07', rule='process-crashed-during-run', detail=first_panic_line(full), item=i, where=r['dir']))
            else:
                inconclusive.append('harness exit %s for %s (not an engine panic): %s' % (r['code'], r['name'], tail[-600:]))
            continue
        if res.get('prepare_err'):
            findings.append(Finding(prop='GEN', rule='generated-workflow-rejected', detail=res['prepare_err'][:200], item=i, where=r['dir']))
            continue
        if res.get('watchdog'):
            findings.append(Finding(prop='C01', rule='run-did-not-return', detail=classify_hang(res.get('stacks', '')), item=i, where=r['dir']))
        for lk in (res.get('leaks') or []):
            findings.append(Finding(prop='C05', rule='goroutine-left-after-return', detail=leak_site(lk), item=i, where=r['dir']))
        wfs = {'workflow.yaml': it['wf']}
        wfs.update(it.get('subwfs', {}))
        cs = cases_from_result(r, wfs, it.get('inputs') or [it['input']], expect_items=it.get('expect_items'), pure=it.get('pure', False))
        for c in cs:
            if res.get('watchdog'):
                c['noreturn'] = True
            owner.append(i)
            allcases.append(c)
        # result vs meaning
        want = None
        if it.get('want') is not None:
            want = set(it['want'])
        elif mres is not None and it.get('_m') is not None:
            want = mres[it['_m']]['results']
        if want is not None and not res.get('watchdog') and res.get('runs'):
            it['_want'] = sorted(want)
            it['_got'] = engine_outcome(res['runs'][0])
            for ri, rr in enumerate(res['runs']):
                w = want
                if ri in (it.get('want_override') or {}):
                    w = set(it['want_override'][ri])
                got = engine_outcome(rr)
                cancelled = rr.get('cancel_ms', -1) >= 0
                if 'hung' not in w and got not in w and not it.get('cancel') and not cancelled:
                    findings.append(Finding(prop='C03', rule='result-differs-from-declarative-meaning',
                                            detail='%sgot %s want %s%s' % ('run %d: ' % ri if len(res['runs']) > 1 else '', got, sorted(w),
                                                                           (' err=' + rr.get('err', '')[:160]) if got == 'error' else ''),
                                            item=i, where=r['dir']))
    stats['traces'] = len(allcases)
    stats['events'] = sum(len(c['events']) for c in allcases)
    # 4. validate
    v, tst, fails = validate_cases_parallel([strip_case(c) for c in allcases], work, batch=batch, jobs=jobs)
    stats['trace_states'] = tst.get('distinct', 0)
    for bi, out in fails:
        inconclusive.append('EngineTrace batch %d failed: %s' % (bi, out[-1200:]))
    for x in v:
        i = owner[x['case']]
        findings.append(Finding(prop=x['prop'], rule=x['rule'], detail=x['detail'], item=i, where=items[i]['_dir'], line=x['line']))
    stats['wall'] = time.time() - t0
    stats['inconclusive'] = inconclusive
    return findings, stats


def engine_panic(txt):
    """a Go panic / fatal error whose panicking goroutine runs engine code (not the harness' in-process plugin)"""
    m = re.search(r'^(panic:|fatal error:)', txt, re.M)
    if not m:
        return False
    rest = txt[m.start():]
    g = re.search(r'\ngoroutine \d+ \[[^\]]*\]:\n', rest)
    pat = re.compile(r'go\.flow\.arcalot\.io/engine[./(]')
    if not g:
        return bool(pat.search(rest))
    stack = rest[g.end():].split('\n\n')[0]
    return bool(pat.search(stack))


def first_panic_line(txt):
    for line in txt.splitlines():
        if line.startswith('panic:') or line.startswith('fatal error:'):
            return line[:200]
    return txt.strip().splitlines()[-1][:200] if txt.strip() else ''


def classify_hang(stacks):
    """signature of a hang from the goroutine dump: who blocks where"""
    sig = []
    if re.search(r'chan send.*?\n(?:.*\n){0,12}?.*workflow\.\(\*loopState\)\.(notifySteps|onStageComplete|checkForDeadlocks)', stacks):
        sig.append('chan-send-under-run-lock')
    if 'sync.(*WaitGroup).Wait' in stacks and 'ForceClose' in stacks:
        sig.append('caller-in-ForceClose-wait')
    if re.search(r'sync\.\(\*Mutex\)\.Lock', stacks):
        sig.append('goroutines-waiting-for-lock')
    return '+'.join(sig) or 'unclassified'


def leak_site(stack):
    for line in stack.splitlines():
        m = re.match(r'(go\.flow\.arcalot\.io/[^\s(]+)', line.strip())
        if m:
            return m.group(1)
    return stack.splitlines()[0][:120] if stack else ''
