"""Projection of a recorded engine trace onto the events that Engine.tla's actions are witnessed by (strict mode).
The projection is purely syntactic: it renames, drops events that no model action corresponds to, and maps the
scripted plugin's output names to the model's; it never reorders and never reconstructs state."""
import json
import os
import re

import vlib

OUTMAP = {}       # plugin output names are the model's
DET_RETRIES = 3
DEFAULT_WFOUT = {'success': 'o'}      # the families of Engine.tla have one workflow output, called "o"
ERRMAP = {'nooutputs': 'nooutputs', 'nosteps': 'nosteps', 'resolvestage': 'resolvefail', 'resolveoutput': 'resolvefail'}


def nz(x):
    return 'nil' if x is None else x


def project(evs, ost, wfout=None):
    """evs: raw events of ONE run (including the events of its steps), ost: object id -> step id.
    Returns the list of abstract events."""
    out = []
    WFOUT = DEFAULT_WFOUT if wfout is None else wfout
    # A stop condition takes effect when the step's context is cancelled (SCtx cancelStep), which happens inside the
    # ProvideStageInput call announced by the run loop's Provide event - possibly a while later, when the step lock is
    # free.  When the same goroutine logs that cancellation next, IT is the witness of handing over the cancelled-stage
    # input, not the announcement.
    defer_to = {}      # index of a Provide(cancelled) event -> index of the SCtx(cancelStep) that witnesses it
    for i, e in enumerate(evs):
        if e['ev'] == 'Provide' and e.get('stage') == 'cancelled':
            for j in range(i + 1, len(evs)):
                f = evs[j]
                if f.get('g') != e.get('g'):
                    continue
                if f['ev'] in ('SProv', 'SSig'):
                    continue
                if f['ev'] == 'SCtx' and f.get('why') == 'cancelStep':
                    defer_to[i] = j
                break
    witness = {j: i for i, j in defer_to.items()}
    for idx, e in enumerate(evs):
        k = e['ev']
        if idx in defer_to:
            continue
        if idx in witness:
            out.append({'k': 'Prov', 's': evs[witness[idx]]['step'], 'st': 'cancelled', 'state': 'nil'})
        s = e.get('step') or ost.get(e.get('obj'))
        if k == 'SSet':
            out.append({'k': 'Set', 's': s, 'stage': e['stage'], 'state': e['state']})
        elif k == 'SState':
            out.append({'k': 'Read', 's': s, 'stage': e['stage'], 'state': e['state']})
        elif k == 'HEnter':
            h = e['h']
            if h == 'K':
                out.append({'k': 'HB', 'who': 'K', 's': 'nil', 'prev': 'nil', 'out': 'nil', 'stage': 'nil'})
            elif h == 'S':
                out.append({'k': 'HB', 'who': 'S', 's': e['step'], 'prev': nz(e.get('prev')), 'out': (OUTMAP.get(e.get('out'), nz(e.get('out'))) if e.get('prev') == 'outputs' else nz(e.get('out'))), 'stage': 'nil'})
            else:
                out.append({'k': 'HB', 'who': 'F', 's': e['step'], 'prev': 'nil', 'out': 'nil', 'stage': e['stage']})
        elif k == 'HExit':
            out.append({'k': 'HE'})
        elif k == 'SProv' and e.get('ok') and e['stage'] in ('deploy', 'enabling', 'starting', 'execute'):
            out.append({'k': 'Prov', 's': s, 'st': e['stage'], 'state': nz(e.get('state'))})
        elif k == 'SProv' and e.get('closed') and e['stage'] in ('enabling', 'execute'):
            out.append({'k': 'Prov', 's': s, 'st': e['stage'], 'state': 'nil'})     # handed to a closed loop step: dropped by the step
        elif k == 'Provide' and e['stage'] == 'cancelled':
            out.append({'k': 'Prov', 's': e['step'], 'st': 'cancelled', 'state': 'nil'})
        elif k == 'ErrPush' and e['kind'] != 'reinsert':
            out.append({'k': 'Err', 'kind': ERRMAP.get(e['kind'], e['kind']), 'len': e['len']})
        elif k == 'OutSend':
            out.append({'k': 'Out', 'id': WFOUT.get(e['id'], e['id'])})
        elif k == 'SSlot' and e['op'] in ('take', 'miss', 'peek', 'ctxdone'):
            val = 'nil'
            if e['slot'] == 'enabling':
                val = 'T' if e.get('val') in (True, 'true') else 'F'
            elif e['op'] == 'peek':
                val = 'T' if e.get('avail') in (True, 'true') else 'F'
            out.append({'k': 'Slot', 's': s, 'slot': e['slot'], 'op': e['op'], 'val': val})
        elif k == 'FCollect':
            out.append({'k': 'Collect', 's': s, 'ok': int(e.get('nerr', 0)) == 0})
        elif k == 'SDeployRet':
            out.append({'k': 'Deploy', 's': s, 'ok': e.get('err') is None, 'ctxdone': bool(e.get('ctxdone'))})
        elif k == 'SConn':
            out.append({'k': 'Conn', 's': s, 'op': e['op']})
        elif k == 'SExec' and e['op'] in ('spawn', 'result', 'published', 'done'):
            o = e.get('outid')
            res = 'nil'
            if e['op'] == 'result':
                res = 'err' if e.get('err') is not None else OUTMAP.get(o, nz(o))
            out.append({'k': 'Exec', 's': s, 'op': e['op'], 'out': res})
        elif k == 'SRes':
            out.append({'k': 'Res', 's': s, 'out': 'err' if e.get('err') is not None else OUTMAP.get(e.get('outid'), nz(e.get('outid')))})
        elif k == 'SSig':
            out.append({'k': 'Sig', 's': s, 'op': e['op']})
        elif k == 'SExit':
            out.append({'k': 'Exit', 's': s})
        elif k == 'DetWake':
            out.append({'k': 'DetWake', 'retries': e['retries']})
        elif k == 'Det':
            dead = e['starting'] == 0 and e['running'] == 0 and not e['hasReady'] and not e['outputDone']
            out.append({'k': 'Det', 'retries': e['retries'], 'dead': dead})
        elif k == 'DetCtxExit':
            out.append({'k': 'DetCtx', 'retries': e.get('retries', -1)})
        elif k == 'Select':
            out.append({'k': 'Select', 'branch': e['branch']})
        elif k == 'TermStep':
            out.append({'k': 'TermStep', 's': e['step']})
        elif k == 'TermStepRet':
            out.append({'k': 'TermRet', 's': e['step']})
        elif k == 'Return':
            err = e.get('err')
            out.append({'k': 'Return', 'kind': 'error' if err is not None else 'output', 'id': WFOUT.get(e.get('id'), nz(e.get('id'))) if err is None else 'nil'})
        elif k == 'XCallerCancel':
            out.append({'k': 'Cancel'})
        elif k == 'SClose' and e.get('kind') in ('force', 'close'):
            out.append({'k': 'Close', 's': s, 'ok': bool(e.get('was'))})      # ok = the closed flag had been set before
        elif k == 'SCtx':
            out.append({'k': 'Ctx', 's': s, 'why': e['why']})
    # every record gets every field (TLC records are compared field-wise)
    fields = {'s': 'nil', 'stage': 'nil', 'state': 'nil', 'who': 'nil', 'prev': 'nil', 'out': 'nil', 'st': 'nil', 'kind': 'nil', 'len': 0, 'id': 'nil',
              'slot': 'nil', 'op': 'nil', 'val': 'nil', 'ok': True, 'ctxdone': False, 'retries': -1, 'dead': False, 'branch': 'nil', 'why': 'nil'}
    return [dict(fields, **x) for x in out]


def one_run_events(trace_path, wfout=None, sub_runs=False):
    """projected events of the top-level runs of a trace (sub_runs=False) or of the runs started by loop steps for their
    items (sub_runs=True: each is an engine run of its own, cancelled - if at all - through its parent's context)"""
    evs = vlib.read_trace(trace_path)
    runs, objrun = vlib.split_runs(evs)
    ost = vlib.obj_steps(evs)
    res = []
    for ru in runs:
        if (ru['parent'] is None) != sub_runs:
            res.append(project(ru['events'], ost, wfout))
    return res


def node_of(ref):
    """engine node id ('steps.a.outputs.success', 'steps.a.outputs') -> Engine.tla node tuple; None for the workflow input"""
    parts = ref.split('.')
    if parts[0] != 'steps':
        return None
    if len(parts) == 3:
        return ['st', parts[1], parts[2]]
    if len(parts) == 4:
        if parts[2] == 'failed':
            return ['so', parts[1], 'failed', 'error']
        return ['so', parts[1], parts[2], parts[3]]
    raise ValueError(ref)


def tree_refs(t):
    """node ids a tree refers to, or None when the tree uses a construct Engine.tla does not model (tags)"""
    k = t['t']
    if k == 'lit':
        return []
    if k == 'ref':
        return list(t['refs'])
    if k in ('map', 'list'):
        out = []
        for kid in (t['kids'].values() if k == 'map' else t['kids']):
            r = tree_refs(kid)
            if r is None:
                return None
            out += r
        return out
    return None


def custom_of(wf, oc=None):
    """the Custom record of Engine.tla for an abstract workflow, or None when the workflow is outside the modelled
    fragment (plugin steps whose input / wait_for / deploy fields are literals and plain references, no enabled / stop_if,
    untagged outputs)"""
    try:
        return _custom_of(wf, oc or {})
    except KeyError:
        return None


def _custom_of(wf, oc):
    steps = sorted(wf['steps'])
    refs = {}
    enabled, stop, kinds = {}, {}, {}
    for sid in steps:
        d = wf['steps'][sid]
        kinds[sid] = d['kind']
        if d['kind'] == 'foreach':
            per = {'enabling': [], 'execute': []}
            enabled[sid] = 'F' if oc.get(sid, {}).get('enabled') is False else 'T'
            stop[sid] = 'F'
            for f, t in d['fields'].items():
                if f not in ('items', 'parallelism', 'wait_for', 'enabled'):
                    return None
                r = tree_refs(t)
                if r is None:
                    return None
                for x in r:
                    n = node_of(x)
                    st = 'enabling' if f == 'enabled' else 'execute'
                    if n is not None and n not in per[st]:
                        per[st].append(n)
            refs[sid] = per
            continue
        if d['kind'] != 'plugin' or d.get('pstep', 'work') != 'work':
            return None
        per = {'starting': [], 'deploy': [], 'enabling': [], 'cancelled': []}
        # the values of the enabled / stop_if expressions come from the generator's outcome vector (they are inputs of
        # the model, like the plugin outcomes)
        enabled[sid] = 'F' if oc.get(sid, {}).get('enabled') is False else 'T'
        stop[sid] = 'T' if oc.get(sid, {}).get('stop') else 'F'
        for f, t in d['fields'].items():
            if f not in ('input', 'wait_for', 'deploy', 'closure_wait_timeout', 'enabled', 'stop_if'):
                return None
            if f in ('enabled', 'stop_if') and sid not in oc:
                return None
            r = tree_refs(t)
            if r is None:
                return None
            st = {'deploy': 'deploy', 'enabled': 'enabling', 'stop_if': 'cancelled'}.get(f, 'starting')
            for x in r:
                n = node_of(x)
                if n is not None and n not in per[st]:
                    per[st].append(n)
        refs[sid] = per
    outs = {}
    for oid, t in wf['outputs'].items():
        r = tree_refs(t)
        if r is None:
            return None
        outs[oid] = [n for n in (node_of(x) for x in dict.fromkeys(r)) if n is not None]
    return {'steps': steps, 'refs': refs, 'outputs': outs, 'enabled': enabled, 'stop': stop, 'kinds': kinds}
