"""Shared machinery for the arcaflow-engine verification checks (orchestration only: no verdict is decided here).

 * abstract workflows (the record Workflow.tla reads) + YAML rendering from the same record
 * running scenarios through the Go harness (real engine, scripted deployer)
 * normalising recorded traces into TLC-readable cases (deterministic regrouping, no state reconstruction)
 * running TLC (exhaustive configurations and trace validation) and reading back its verdicts
 * evidence / known-findings plumbing
"""
import concurrent.futures as cf
import hashlib
import json
import os
import random
import re
import shutil
import subprocess
import sys
import tempfile
import time

VERIF = '/verif'
REPO = '/repo'
SPEC = os.path.join(VERIF, 'spec')
GOENV = dict(os.environ, GOFLAGS='-mod=mod', GOPROXY='off', GOSUMDB='off', GOTOOLCHAIN='local')
PLUGIN_OUTS = ['success', 'alt', 'cancelled_early', 'error']
NCPU = os.cpu_count() or 8


# ---------------------------------------------------------------------------------------------------------------
# work directories

def mkwork(prefix='verif'):
    base = os.environ.get('VERIF_WORK') or tempfile.gettempdir()
    return tempfile.mkdtemp(prefix=prefix + '-', dir=base)


def rmwork(path):
    shutil.rmtree(path, ignore_errors=True)


# ---------------------------------------------------------------------------------------------------------------
# harness build

def build_harness(work, race=False):
    """Builds the harness from /repo's CURRENT working tree (overlay, -tags verif). Returns the binary path or
    raises RuntimeError (callers turn that into exit 2: inconclusive)."""
    args = [os.path.join(VERIF, 'bin', 'build_harness.sh'), work] + (['race'] if race else [])
    p = subprocess.run(args, env=GOENV, capture_output=True, text=True)
    if p.returncode != 0:
        raise RuntimeError('harness build failed:\n' + p.stdout + p.stderr)
    return os.path.join(work, 'verifh-race' if race else 'verifh')


def build_cli(work):
    """Builds the real command-line program (cmd/arcaflow) from /repo's current working tree with the scripted deployer
    overlaid (harness/cli/cli_init.go). Returns the binary path or raises RuntimeError."""
    p = subprocess.run([os.path.join(VERIF, 'bin', 'build_harness.sh'), work, 'cli'], env=GOENV, capture_output=True, text=True)
    if p.returncode != 0:
        raise RuntimeError('cli build failed:\n' + p.stdout + p.stderr)
    return os.path.join(work, 'verifcli')


CLI_CONFIG = 'deployers:\n  scripted:\n    deployer_name: scripted\nlog:\n  level: error\n'


def run_cli(binary, ctxdir, script, args, cwd=None, timeout=60, sigint_after=None, ledger=None):
    """runs the command-line program; returns (exit code, stdout, stderr, seconds). sigint_after: send an interrupt after
    that many seconds (as a terminal's ctrl-C would). ledger: file the scripted deployer appends its deployments,
    closed connections and executions to"""
    import signal
    import time
    env = dict(GOENV, VERIF_CLI_SCRIPT=json.dumps(script))
    if ledger:
        env['VERIF_EXEC_LOG'] = ledger
    t0 = time.time()
    p = subprocess.Popen([binary] + args, cwd=cwd or ctxdir, env=env, stdout=subprocess.PIPE, stderr=subprocess.PIPE, text=True)
    try:
        if sigint_after is not None:
            try:
                out, err = p.communicate(timeout=sigint_after)
            except subprocess.TimeoutExpired:
                p.send_signal(signal.SIGINT)
                out, err = p.communicate(timeout=timeout)
        else:
            out, err = p.communicate(timeout=timeout)
    except subprocess.TimeoutExpired:
        p.kill()
        out, err = p.communicate()
        return 124, out, err, time.time() - t0
    return p.returncode, out, err, time.time() - t0


def read_ledger(path):
    """(deployed connection ids, closed connection ids, number of executions) from a scripted-deployer ledger"""
    dep, clo, ex = set(), set(), 0
    if os.path.exists(path):
        for line in open(path):
            w = line.split()
            if not w:
                continue
            if w[0] == 'deploy':
                dep.add(w[1])
            elif w[0] == 'close':
                clo.add(w[1])
            elif w[0] == 'exec':
                ex += 1
    return dep, clo, ex


# ---------------------------------------------------------------------------------------------------------------
# abstract workflow trees

def flatten(v, prefix=()):
    """python value -> list of (path tuple, scalar string) like the harness' leaves()."""
    if v is None:
        return [(prefix, 'null')]
    if isinstance(v, bool):
        return [(prefix, 'true' if v else 'false')]
    if isinstance(v, (int, float)):
        return [(prefix, repr(v) if isinstance(v, float) else str(v))]
    if isinstance(v, str):
        return [(prefix, v)]
    if isinstance(v, dict):
        if not v:
            return [(prefix, '{}')]
        out = []
        for k in v:
            out += flatten(v[k], prefix + (str(k),))
        return out
    if isinstance(v, (list, tuple)):
        if not v:
            return [(prefix, '[]')]
        out = []
        for i, x in enumerate(v):
            out += flatten(x, prefix + (str(i),))
        return out
    raise TypeError(type(v))


def leaves_json(pairs):
    return [{'p': list(p), 'v': v} for p, v in sorted(pairs)]


def yaml_scalar_str(v):
    # every YAML scalar reaches the engine as a string
    if isinstance(v, bool):
        return 'true' if v else 'false'
    return str(v)


def lit(value):
    """literal; leaves use the string form the YAML layer hands to the engine"""
    def conv(x):
        if isinstance(x, dict):
            return {k: conv(y) for k, y in x.items()}
        if isinstance(x, list):
            return [conv(y) for y in x]
        return yaml_scalar_str(x)
    return {'t': 'lit', 'leaves': leaves_json(flatten(conv(value))), 'value': value, 'ty': lit_type(value)}


def lit_type(v):
    if isinstance(v, bool):
        return 'boolstr'
    if isinstance(v, int):
        return 'intstr'
    if isinstance(v, float):
        return 'float'
    if isinstance(v, list):
        return 'list'
    if isinstance(v, dict):
        return 'map'
    s = str(v)
    if re.fullmatch(r'-?\d+', s):
        return 'intstr'
    if s.lower() in ('true', 'false', 'yes', 'no', 'on', 'off'):
        return 'boolstr'
    return 'string'


def ref_type(parts):
    last = parts[-1]
    if parts[0] == 'input':
        return {'x': 'string', 'n': 'int', 'flag': 'bool'}.get(last, 'object' if len(parts) == 1 else 'unknown')
    if len(parts) <= 3:
        return 'any'
    if len(parts) == 4:
        return 'object'
    return {'tok': 'string', 'reason': 'string', 'message': 'string', 'output': 'string', 'error': 'string', 'n': 'int', 'l': 'list',
            'enabled': 'bool', 'cancelled': 'bool', 'close_requested': 'bool', 'data': 'list'}.get(last, 'unknown')


def node_of_path(parts):
    """['input', ...] or ['steps', s, stage, (out), ...] -> (node id, remaining path)"""
    if parts[0] == 'input':
        return 'input', parts[1:]
    assert parts[0] == 'steps'
    if len(parts) == 3:
        return 'steps.%s.%s' % (parts[1], parts[2]), []
    return 'steps.%s.%s.%s' % (parts[1], parts[2], parts[3]), parts[4:]


def ref(path, opaque=None):
    """plain reference `$.a.b.c` given as dotted string without the `$.`"""
    parts = path.split('.')
    node, sub = node_of_path(parts)
    if opaque is None:
        opaque = parts[0] == 'steps' and len(parts) == 3
    return {'t': 'ref', 'refs': [node], 'mode': 'opaque' if opaque else 'path', 'src': node, 'sub': sub,
            'expr': '$.' + path, 'ty': ref_type(parts)}


def fexpr(expr, refs):
    """an arbitrary expression (function calls, arithmetic ...) whose value the oracle does not predict"""
    nodes = []
    for r in refs:
        n, _ = node_of_path(r.split('.'))
        if n not in nodes:
            nodes.append(n)
    return {'t': 'ref', 'refs': nodes, 'mode': 'opaque', 'src': 'nil', 'sub': [], 'expr': expr, 'ty': 'any'}


def tmap(kids):
    return {'t': 'map', 'kids': dict(kids)}


def tlist(kids):
    return {'t': 'list', 'kids': list(kids)}


def opt(path, wait):
    return {'t': 'opt', 'wait': bool(wait), 'e': ref(path)}


def oneof(disc, opts):
    return {'t': 'oneof', 'disc': disc, 'opts': dict(opts)}


def ordisabled(path):
    parts = path.split('.')
    assert parts[0] == 'steps'
    return {'t': 'oneof', 'disc': 'result', 'ordisabled': '$.' + path,
            'opts': {'enabled': ref(path), 'disabled': ref('steps.%s.disabled.output' % parts[1])}}


def strip_tree(t):
    """the form TLC reads: no python-only keys"""
    k = t['t']
    if k == 'lit':
        return {'t': 'lit', 'leaves': t['leaves'], 'ty': t.get('ty', 'string')}
    if k == 'ref':
        return {'t': 'ref', 'refs': t['refs'], 'mode': t['mode'], 'src': t['src'], 'sub': t['sub'], 'ty': t.get('ty', 'any')}
    if k == 'map':
        return {'t': 'map', 'kids': {kk: strip_tree(v) for kk, v in t['kids'].items()}}
    if k == 'list':
        return {'t': 'list', 'kids': [strip_tree(v) for v in t['kids']]}
    if k == 'opt':
        return {'t': 'opt', 'wait': t['wait'], 'e': strip_tree(t['e'])}
    if k == 'oneof':
        return {'t': 'oneof', 'disc': t['disc'], 'opts': {kk: strip_tree(v) for kk, v in t['opts'].items()}}
    raise ValueError(k)


def strip_wf(wf):
    return {'steps': {s: {'kind': d['kind'], 'outs': d.get('outs', PLUGIN_OUTS if d['kind'] == 'plugin' else []),
                          # whether the plugin step declares the cancel signal (the scripted plugin's "work" does, "nowork" does not)
                          'handler': d['kind'] == 'plugin' and d.get('pstep', 'work') == 'work',
                          'fields': {f: strip_tree(t) for f, t in d['fields'].items()}}
                      for s, d in wf['steps'].items()},
            'outputs': {o: strip_tree(t) for o, t in wf['outputs'].items()}}


# ---------------------------------------------------------------------------------------------------------------
# YAML rendering (from the abstract record, never the other way round)

def _q(s):
    return json.dumps(s)


def render_tree(t, ind):
    """returns YAML text for a value position; starts on the same line (caller wrote `key:`)"""
    pad = '  ' * ind
    k = t['t']
    if k == 'lit':
        return render_value(t['value'], ind)
    if k == 'ref':
        return ' !expr %s\n' % _q(t['expr'])
    if k == 'opt':
        return ' %s %s\n' % ('!wait-optional' if t['wait'] else '!soft-optional', _q(t['e']['expr']))
    if k == 'oneof':
        if 'ordisabled' in t:
            return ' !ordisabled %s\n' % _q(t['ordisabled'])
        out = ' !oneof\n%sdiscriminator: %s\n%sone_of:\n' % (pad, _q(t['disc']), pad)
        for kk, v in t['opts'].items():
            out += '%s  %s:%s' % (pad, _q(kk), render_tree(v, ind + 2))
        return out
    if k == 'map':
        if not t['kids']:
            return ' {}\n'
        out = '\n'
        for kk, v in t['kids'].items():
            out += '%s%s:%s' % (pad, _q(kk), render_tree(v, ind + 1))
        return out
    if k == 'list':
        if not t['kids']:
            return ' []\n'
        out = '\n'
        for v in t['kids']:
            out += '%s-%s' % (pad, render_tree(v, ind + 1))
        return out
    raise ValueError(k)


def render_value(v, ind):
    pad = '  ' * ind
    if isinstance(v, dict):
        if not v:
            return ' {}\n'
        out = '\n'
        for kk, x in v.items():
            out += '%s%s:%s' % (pad, _q(str(kk)), render_value(x, ind + 1))
        return out
    if isinstance(v, list):
        if not v:
            return ' []\n'
        out = '\n'
        for x in v:
            out += '%s-%s' % (pad, render_value(x, ind + 1))
        return out
    if isinstance(v, bool):
        return ' %s\n' % ('true' if v else 'false')
    if isinstance(v, (int, float)):
        return ' %s\n' % v
    if v is None:
        return ' null\n'
    return ' %s\n' % _q(v)


DEFAULT_INPUT_SCHEMA = {
    'root': 'RootObject',
    'objects': {'RootObject': {'id': 'RootObject', 'properties': {
        'x': {'type': {'type_id': 'string'}, 'required': False},
        'n': {'type': {'type_id': 'integer'}, 'required': False},
        'flag': {'type': {'type_id': 'bool'}, 'required': False},
    }}}}


def render_workflow(wf):
    out = 'version: v0.2.0\ninput:%s' % render_value(wf.get('input_schema', DEFAULT_INPUT_SCHEMA), 1)
    out += 'steps:'
    if not wf['steps']:
        out += ' {}\n'
    else:
        out += '\n'
    for s, d in wf['steps'].items():
        out += '  %s:\n' % s
        if d['kind'] == 'plugin':
            out += '    plugin:\n      src: %s\n      deployment_type: scripted\n' % _q(d.get('src', s))
            out += '    step: %s\n' % d.get('pstep', 'work')
        else:
            out += '    kind: foreach\n    workflow: %s\n' % _q(d['workflow'])
        for f, t in d['fields'].items():
            out += '    %s:%s' % (f, render_tree(t, 3))
    out += 'outputs:\n'
    for o, t in wf['outputs'].items():
        out += '  %s:%s' % (o, render_tree(t, 2))
    if wf.get('output_schema'):
        out += 'outputSchema:%s' % render_value(wf['output_schema'], 1)
    return out


# ---------------------------------------------------------------------------------------------------------------
# running scenarios

def run_scenario(binary, sc, work, name, timeout_s=None):
    d = os.path.join(work, name)
    os.makedirs(d, exist_ok=True)
    sc = dict(sc)
    sc['trace_out'] = os.path.join(d, 'trace.ndjson')
    sc['result_out'] = os.path.join(d, 'result.json')
    with open(os.path.join(d, 'scenario.json'), 'w') as f:
        json.dump(sc, f)
    t0 = time.time()
    to = timeout_s or (sc.get('timeout_ms', 30000) / 1000.0 + 20)
    try:
        p = subprocess.run([binary, 'run', os.path.join(d, 'scenario.json')], capture_output=True, text=True,
                           timeout=to, env=GOENV)
        code, out, err = p.returncode, p.stdout, p.stderr
    except subprocess.TimeoutExpired as e:
        code, out, err = 124, (e.stdout or b'').decode() if isinstance(e.stdout, bytes) else (e.stdout or ''), 'outer timeout'
    res = None
    try:
        with open(sc['result_out']) as f:
            res = json.load(f)
    except Exception:
        pass
    return {'name': name, 'dir': d, 'code': code, 'stdout': out[-4000:], 'stderr': (err if len(err) <= 14000 else err[:9000] + '\n...\n' + err[-5000:]), 'result': res,
            'trace': sc['trace_out'], 'wall': time.time() - t0, 'scenario': sc}


def run_scenarios(binary, scs, work, jobs=None, prefix='s'):
    jobs = jobs or max(2, NCPU - 2)
    with cf.ThreadPoolExecutor(max_workers=jobs) as ex:
        futs = [ex.submit(run_scenario, binary, sc, work, '%s%04d' % (prefix, i)) for i, sc in enumerate(scs)]
        return [f.result() for f in futs]


def read_trace(path):
    evs = []
    try:
        with open(path) as f:
            for line in f:
                line = line.strip()
                if line:
                    evs.append(json.loads(line))
    except FileNotFoundError:
        pass
    evs.sort(key=lambda e: e['seq'])
    return evs


# ---------------------------------------------------------------------------------------------------------------
# trace normalisation: split by run, give every event the fields the trace specification reads, no nulls

def nz(v):
    return 'nil' if v is None else v


def split_runs(evs):
    """returns list of dicts {run, wf, events, parent:(obj,i) or None, runidx or None} in order of RunBegin"""
    obj_run = {}
    conn_obj = {}
    g_obj = {}
    g_runidx = {}
    g_item = {}
    runs = {}
    order = []
    for e in evs:
        k = e['ev']
        g = e.get('g')
        if k == 'XRunCall':
            g_runidx[g] = e['runidx']
        elif k == 'FItem' and e.get('op') == 'acquire':
            g_item[g] = (e['obj'], e['i'])
        elif k == 'RunBegin':
            r = {'run': e['run'], 'wf': e['wf'], 'events': [], 'parent': g_item.get(g), 'runidx': None}
            if g in g_runidx and r['parent'] is None:
                r['runidx'] = g_runidx.pop(g)
            runs[e['run']] = r
            order.append(e['run'])
        elif k == 'StepStart':
            obj_run[e['obj']] = e['run']
    # second pass: route events
    pending_obj = {}
    for e in evs:
        k = e['ev']
        g = e.get('g')
        run = e.get('run')
        if run is None and 'obj' in e:
            run = obj_run.get(e['obj'])
            if k in ('SSet', 'SSlot', 'SDeployRet', 'SConn', 'SExit', 'SReadSchema'):
                g_obj[g] = e['obj']
        if k in ('XDeployBegin', 'XDeploy', 'XDeployFail') and e.get('phase') == 'run':
            o = g_obj.get(g)
            if o is not None:
                conn_obj[e['conn']] = o
                e = dict(e, obj=o)
                run = obj_run.get(o)
        elif k in ('XConnClose', 'XExecStart', 'XExecEnd', 'XSigRecv', 'XExecAbort'):
            o = conn_obj.get(e.get('conn'))
            if o is not None:
                e = dict(e, obj=o)
                run = obj_run.get(o)
        elif k == 'XCallerCancel':
            for r in runs.values():
                if r['runidx'] == e['runidx']:
                    run = r['run']
        if run in runs:
            runs[run]['events'].append(e)
    return [runs[r] for r in order], obj_run


def obj_steps(evs):
    m = {}
    for e in evs:
        if e['ev'] == 'SStart':
            m[e['obj']] = e['step']
    return m


def norm_events(revs, ostep):
    out = []
    hcall = {}
    for e in revs:
        k = e['ev']
        step = e.get('step')
        if step is None and 'obj' in e:
            step = ostep.get(e['obj'])
        n = {'ev': k}
        if k == 'HCall':
            hcall[e['step']] = e['h']
            continue
        if k == 'HEnter':
            n['h'] = e['h']
            if e['h'] == 'S':
                n.update(step=e['step'], prev=nz(e.get('prev')), out=nz(e.get('out')), hc=hcall.pop(e['step'], 'nil'),
                         data=e.get('data') or [],
                         conforms={True: 'y', False: 'n'}.get(e.get('conforms'), 'na'),
                         dtype=nz(e.get('dtype')))
            elif e['h'] == 'F':
                n.update(step=e['step'], stage=e['stage'])
        elif k == 'Stored':
            n.update(step=e['step'], prev=nz(e.get('prev')), out=nz(e.get('out')), data=e.get('data') or [],
                     conforms={True: 'y', False: 'n'}.get(e.get('conforms'), 'na'), dtype=nz(e.get('dtype')))
        elif k == 'Resolve':
            n.update(node=e['node'], status=e['status'])
        elif k == 'ResolveErr':
            n.update(err=nz(e.get('err')))
        elif k == 'Pop':
            n['ready'] = [{'n': a, 's': b} for a, b in sorted(e['ready'].items())]
        elif k == 'Eval':
            n.update(node=e['node'], ok=e.get('err') is None, data=e.get('data') or [])
        elif k == 'Provide':
            n.update(step=e['step'], stage=e['stage'])
        elif k == 'OutSend':
            n.update(id=e['id'])
        elif k == 'ErrPush':
            n.update(kind=e['kind'], bug=e['kind'].startswith('bug:'), len=e['len'])
        elif k == 'Det':
            n.update(retries=e['retries'], starting=e['starting'], waiting=e['waiting'], running=e['running'],
                     finished=e['finished'], hasReady=e['hasReady'], outputDone=e['outputDone'])
        elif k in ('DetArm', 'DetWake', 'DetCtxExit'):
            n.update(retries=e['retries'])
        elif k == 'Select':
            n.update(branch=e['branch'])
        elif k == 'Drain':
            n.update(n=e['n'])
        elif k in ('TermStep', 'TermStepRet'):
            n.update(step=e['step'])
        elif k == 'Return':
            err = e.get('err')
            n.update(id=nz(e.get('id')), iserr=err is not None, bug=bool(err and 'bug:' in err), err=nz(err))
        elif k == 'SStart':
            n.update(step=step, kind=e['kind'], handler=bool(e.get('handler')))
        elif k in ('SSet', 'SState'):
            n.update(step=step, stage=e['stage'], state=e['state'])
        elif k == 'SProv':
            n.update(step=step, stage=e['stage'], ok=bool(e['ok']), val=str(e.get('val', 'nil')).lower(), n=int(e.get('n', 0)), par=int(e.get('par', 0)),
                     state=str(e.get('state') or 'nil'))
        elif k == 'SSlot':
            n.update(step=step, slot=e['slot'], op=e['op'], val=str(e.get('val', 'nil')).lower())
        elif k == 'SCtx':
            n.update(step=step, why=e['why'])
        elif k in ('SClose',):
            n.update(step=step, kind=e['kind'], was=bool(e['was']))
        elif k == 'SCloseRet':
            n.update(step=step, kind=e['kind'])
        elif k == 'SConn':
            n.update(step=step, op=e['op'])
        elif k == 'SExec':
            n.update(step=step, op=e['op'])
        elif k == 'SSig':
            n.update(step=step, op=e['op'])
        elif k in ('SExit', 'STimer', 'SReadSchema', 'SDeployRet', 'SRes'):
            n.update(step=step, err=nz(e.get('err')))
        elif k == 'SRunCtx':
            n.update(step=step, handler=bool(e['handler']))
        elif k in ('XDeploy', 'XDeployFail', 'XDeployBegin', 'XConnClose'):
            n.update(conn=e['conn'], step=nz(step))
            if k == 'XDeployBegin':
                # the configuration the deployer was created with, as the deployer sees it (its free-form "tag" field)
                n.update(data=[x for x in (e.get('data') or []) if x['v'] != 'null'], mode=nz(e.get('mode')))
        elif k == 'XExecStart':
            n.update(step=nz(step), id=e['id'], conn=e['conn'], concurrent=e['concurrent'],
                     input=[x for x in e['input'] if x['v'] != 'null'])
        elif k in ('XExecEnd', 'XSigRecv', 'XExecAbort'):
            n.update(step=nz(step), id=e['id'], out=nz(e.get('out')))
        elif k == 'FItem':
            n.update(step=step, i=e['i'], op=e['op'], iserr=e.get('err') is not None)
        elif k == 'FCollect':
            n.update(step=step, nerr=e['nerr'], nout=e['nout'])
        elif k in ('RunBegin', 'XCallerCancel', 'StepStart', 'Node'):
            pass
        else:
            n['raw'] = True
        n['seq'] = e['seq']
        out.append(n)
    return out


# ---------------------------------------------------------------------------------------------------------------
# TLC

def tlc(module_dir, module, cfg_text, work, extra_args=(), timeout_s=600, workers=1, java_opts=None, copy=()):
    """Runs TLC on `module` from a scratch copy of the spec directory. Returns (returncode, stdout)."""
    d = tempfile.mkdtemp(prefix='tlc-', dir=work)
    for root in (SPEC, os.path.join(SPEC, 'trace')):
        for f in os.listdir(root):
            if f.endswith('.tla'):
                shutil.copy(os.path.join(root, f), d)
    for src in copy:
        shutil.copy(src, d)
    with open(os.path.join(d, module + '.cfg'), 'w') as f:
        f.write(cfg_text)
    env = dict(os.environ)
    if java_opts:
        env['JAVA_TOOL_OPTIONS'] = java_opts
    cmd = ['timeout', str(int(timeout_s)), 'tlc', '-metadir', os.path.join(d, 'md'), '-workers', str(workers)] + list(extra_args) + [module + '.tla']
    p = subprocess.run(cmd, cwd=d, capture_output=True, text=True, env=env)
    return p.returncode, p.stdout + p.stderr, d


def apalache(module, args, work, timeout_s=300):
    """Runs `apalache-mc check <args> <module>.tla` on a scratch copy of the module. Returns 'ok' (no error up to the given
    length), 'error' (the checker found a counterexample) or 'failed: ...' (the tool itself did not finish)"""
    d = tempfile.mkdtemp(prefix='apa-', dir=work)
    shutil.copy(os.path.join(SPEC, module + '.tla'), d)
    cmd = ['timeout', str(int(timeout_s)), 'apalache-mc', 'check', '--out-dir=' + os.path.join(d, 'out'), '--run-dir=' + os.path.join(d, 'run')] + list(args) + [module + '.tla']
    # the parser front end litters java.io.tmpdir with SANY* directories: keep them inside the scratch copy
    os.makedirs(os.path.join(d, 'tmp'))
    env = dict(os.environ, TMPDIR=os.path.join(d, 'tmp'))       # its launcher makes them with `mktemp -d -t SANY...`
    p = subprocess.run(cmd, cwd=d, capture_output=True, text=True, env=env)
    out = p.stdout + p.stderr
    shutil.rmtree(d, ignore_errors=True)
    if 'The outcome is: NoError' in out and p.returncode == 0:
        return 'ok'
    if 'The outcome is: Error' in out and p.returncode == 12:
        return 'error'
    return 'failed: rc=%s %s' % (p.returncode, out[-500:])


def tlc_stats(out):
    m = re.search(r'(\d+) states generated, (\d+) distinct states found', out)
    st = {'generated': int(m.group(1)), 'distinct': int(m.group(2))} if m else {}
    m = re.search(r'The depth of the complete state graph search is (\d+)', out)
    if m:
        st['depth'] = int(m.group(1))
    return st


def validate_cases(cases, work, timeout_s=900):
    """Runs EngineTrace over a batch of cases. Returns (ok, verdict list, stats, raw output).
    ok False means TLC itself failed (inconclusive), never a property violation."""
    d = tempfile.mkdtemp(prefix='cases-', dir=work)
    path = os.path.join(d, 'cases.json')
    with open(path, 'w') as f:
        json.dump(cases, f)
    cfg = 'SPECIFICATION Spec\nCONSTANT CaseFile = "cases.json"\nCONSTRAINT Export\nINVARIANT TypeOK\nPOSTCONDITION Accepted\nCHECK_DEADLOCK FALSE\n'
    rc, out, td = tlc(SPEC, 'EngineTrace', cfg, work, timeout_s=timeout_s, workers=1, copy=[path],
                      java_opts='-Xss64m')
    verdicts = None
    for line in out.splitlines():
        if line.startswith('<<"VERDICTS"'):
            m = re.match(r'<<"VERDICTS", "(.*)">>$', line.strip())
            if m:
                txt = m.group(1).encode().decode('unicode_escape')
                verdicts = json.loads(txt)
    ok = rc == 0 and verdicts is not None
    stats = tlc_stats(out)
    shutil.rmtree(td, ignore_errors=True)
    shutil.rmtree(d, ignore_errors=True)
    return ok, verdicts or [], stats, out


def validate_cases_parallel(cases, work, batch=8, jobs=None, timeout_s=900):
    """balanced batches (by number of events), one TLC (JVM) per batch, in parallel"""
    jobs = jobs or max(2, NCPU - 4)
    if not cases:
        return [], {'generated': 0, 'distinct': 0}, []
    nb = max(1, min(len(cases), max(jobs, (len(cases) + batch - 1) // batch)))
    bins = [[] for _ in range(nb)]
    load = [0] * nb
    for idx in sorted(range(len(cases)), key=lambda i: -len(cases[i]['events'])):
        k = load.index(min(load))
        bins[k].append(idx)
        load[k] += len(cases[idx]['events']) + 50
    bins = [b for b in bins if b]
    allv, stats, fails = [], {'generated': 0, 'distinct': 0}, []
    with cf.ThreadPoolExecutor(max_workers=jobs) as ex:
        futs = [ex.submit(validate_cases, [cases[i] for i in b], work, timeout_s) for b in bins]
        for bi, f in enumerate(futs):
            ok, v, st, out = f.result()
            if not ok:
                fails.append((bi, out[-3000:]))
                continue
            for x in v:
                allv.append({'prop': x[0], 'rule': x[1], 'detail': x[2], 'case': bins[bi][x[3] - 1], 'line': x[4]})
            for k in stats:
                stats[k] += st.get(k, 0)
    return allv, stats, fails


# ---------------------------------------------------------------------------------------------------------------
# evidence, findings

def load_known():
    try:
        with open(os.path.join(VERIF, 'KNOWN_FINDINGS.json')) as f:
            return json.load(f)
    except FileNotFoundError:
        return {'findings': [], 'fixed': []}


# Seed trials (tools/try_seed_wt.py) build a scratch worktree of the engine (VERIF_REPO) and must not overwrite the
# evidence and replay files of the real tree: they set VERIF_OUT to a scratch directory.
OUTBASE = os.environ.get('VERIF_OUT') or VERIF


def write_evidence(pid, tier, seed, level, coverage, wall, violations, assumptions=()):
    if OUTBASE != VERIF:
        os.makedirs(os.path.join(OUTBASE, 'evidence'), exist_ok=True)
        with open(os.path.join(OUTBASE, 'evidence', pid + '.json'), 'w') as f:
            json.dump({'property_id': pid, 'tier': tier, 'seed': int(seed), 'coverage': coverage, 'violations': int(violations)}, f)
        return None
    os.makedirs(os.path.join(VERIF, 'evidence'), exist_ok=True)
    ev = {'property_id': pid, 'tier': tier, 'seed': int(seed), 'level': level, 'coverage': coverage,
          'assumptions': list(assumptions), 'wall_s': round(wall, 2), 'violations': int(violations)}
    tmp = os.path.join(VERIF, 'evidence', pid + '.json.tmp')
    with open(tmp, 'w') as f:
        json.dump(ev, f, indent=1)
    os.replace(tmp, os.path.join(VERIF, 'evidence', pid + '.json'))
    return ev


# ---------------------------------------------------------------------------------------------------------------
# declarative meaning (Meaning.tla): per (workflow, outcome vector) the set of possible results and of steps that may run

def meaning(cases, work, timeout_s=900, workers=4):
    """cases: list of {'wf': stripped wf, 'oc': {...}}. Returns (ok, [ {'results': set, 'mayrun': set} ], stats, out)"""
    d = tempfile.mkdtemp(prefix='meaning-', dir=work)
    path = os.path.join(d, 'mcases.json')
    with open(path, 'w') as f:
        json.dump(cases, f)
    cfg = 'SPECIFICATION Spec\nCONSTANT CaseFile = "mcases.json"\nCONSTRAINT Export\nINVARIANT TypeOK\nCHECK_DEADLOCK FALSE\n'
    rc, out, td = tlc(SPEC, 'Meaning', cfg, work, timeout_s=timeout_s, workers=workers, copy=[path], java_opts='-Xss64m')
    res = [{'results': set(), 'mayrun': set()} for _ in cases]
    for line in out.splitlines():
        m = re.match(r'<<"MEANING", (\d+), "([^"]*)", "(.*)">>$', line.strip())
        if m:
            i = int(m.group(1)) - 1
            res[i]['results'].add(m.group(2))
            res[i]['mayrun'] |= set(json.loads(m.group(3).encode().decode('unicode_escape')))
    ok = rc == 0 and all(r['results'] for r in res)
    st = tlc_stats(out)
    shutil.rmtree(td, ignore_errors=True)
    shutil.rmtree(d, ignore_errors=True)
    return ok, res, st, out
