"""Verdict policy (DESIGN 6): violations vs known findings vs inconclusive, replay files, evidence."""
import hashlib
import json
import os
import re
import shutil
import sys
import time

import vlib

REPLAYS = os.path.join(vlib.OUTBASE, 'replays')


class Context:
    def __init__(self, pid, tier, seed, keep=False):
        self.pid = pid
        self.tier = tier if tier in ('quick', 'thorough') else 'quick'
        self.seed = seed
        self.t0 = time.time()
        self.work = vlib.mkwork('verif-' + pid.lower())
        self.keep = keep
        self.findings = []       # dicts: prop, rule, detail, replay (dict or None)
        self.notes = []
        self.incon = []
        self.coverage = {'evaluations': 0, 'distinct_nontrivial': 0, 'rule': '', 'samples': [], 'states': 0,
                         'transitions': 0, 'traces_validated_against_impl': 0}
        self.level = 'model_checking'
        self.assumptions = []
        self.drift = []
        self._binary = {}

    @property
    def quick(self):
        return self.tier == 'quick'

    def binary(self, race=False):
        if race not in self._binary:
            self._binary[race] = vlib.build_harness(self.work, race=race)
        return self._binary[race]

    def add(self, prop, rule, detail, replay=None):
        self.findings.append({'prop': prop, 'rule': rule, 'detail': detail, 'replay': replay})

    def inconclusive(self, msg):
        self.incon.append(msg)

    def cov(self, **kw):
        for k, v in kw.items():
            if isinstance(v, (int, float)) and k in self.coverage and isinstance(self.coverage[k], (int, float)):
                self.coverage[k] += v
            elif k == 'samples':
                for s in v:
                    if len(self.coverage['samples']) < 6:
                        self.coverage['samples'].append(s)
            else:
                self.coverage[k] = v

    def finish(self):
        known = vlib.load_known()
        mine = [f for f in self.findings if f['prop'] == self.pid]
        others = [f for f in self.findings if f['prop'] not in (self.pid, 'DRIFT', 'GEN')]
        drift = [f for f in self.findings if f['prop'] == 'DRIFT']
        genrej = [f for f in self.findings if f['prop'] == 'GEN']
        viol = []
        knownhits = {}
        for f in mine:
            k = match_known(known, f)
            if k is not None:
                knownhits.setdefault(k['id'], (k, 0))
                knownhits[k['id']] = (k, knownhits[k['id']][1] + 1)
            else:
                viol.append(f)
        for kid, (k, n) in sorted(knownhits.items()):
            print('KNOWN-FINDING: property=%s %s (%s; seen %d times in this run)' % (self.pid, k['what'], kid, n))
        seen = set()
        nviol = 0
        os.makedirs(REPLAYS, exist_ok=True)
        for f in viol:
            sig = (f['rule'], re.sub(r'\d+', 'N', str(f['detail'])))
            if sig in seen:
                continue
            seen.add(sig)
            nviol += 1
            path = write_replay(self.pid, f)
            print('VIOLATION property=%s replay=%s' % (self.pid, path))
            print('  rule=%s detail=%s' % (f['rule'], f['detail']))
        for d in sorted({f['rule'] + ': ' + str(f['detail']) for f in drift})[:3]:
            print('DRIFT (model and code differ; evidence, not a verdict): ' + d[:400])
        shown = set()
        for m in self.incon:
            key = m[-200:]
            if key in shown:
                continue
            shown.add(key)
            if len(shown) > 4:
                print('INCONCLUSIVE: ... (%d more)' % (len(self.incon) - 4))
                break
            print('INCONCLUSIVE: ' + m[-700:])
        cov = dict(self.coverage)
        cov['other_properties_seen'] = sorted({f['prop'] + ':' + f['rule'] for f in others})[:20]
        cov['model_drift'] = sorted({f['rule'] + ':' + str(f['detail']) for f in drift})[:10]
        cov['generated_workflows_rejected'] = len(genrej)
        cov['known_findings_seen'] = sorted(knownhits)
        cov['inconclusive'] = [m[:300] for m in self.incon]
        if not cov.get('samples'):
            cov['samples'] = ['(no sample recorded)']
        vlib.write_evidence(self.pid, self.tier, self.seed, self.level, cov, time.time() - self.t0, nviol, self.assumptions)
        if not self.keep:
            vlib.rmwork(self.work)
        if nviol:
            return 1
        if self.incon:
            return 2
        print('OK property=%s tier=%s seed=%d wall=%.1fs evaluations=%s states=%s traces=%s' % (
            self.pid, self.tier, self.seed, time.time() - self.t0, cov.get('evaluations'), cov.get('states'),
            cov.get('traces_validated_against_impl')))
        return 0


def match_known(known, f):
    for k in known.get('findings', []):
        if k['property'] != f['prop']:
            continue
        if k.get('rule') and k['rule'] != f['rule']:
            continue
        if k.get('detail_re') and not re.search(k['detail_re'], str(f['detail'])):
            continue
        return k
    return None


def write_replay(pid, f):
    body = {'property': pid, 'rule': f['rule'], 'detail': f['detail'], 'replay': f.get('replay')}
    h = hashlib.sha1(json.dumps([f['rule'], str(f['detail'])], sort_keys=True).encode()).hexdigest()[:10]
    path = os.path.join(REPLAYS, '%s-%s.json' % (pid, h))
    with open(path, 'w') as fp:
        json.dump(body, fp, indent=1)
    return path


def replay(path):
    """Re-executes the scenario of a replay file against the current /repo and re-validates its trace."""
    import engine_check
    with open(path) as fp:
        body = json.load(fp)
    rp = body.get('replay') or {}
    print('property=%s rule=%s detail=%s' % (body['property'], body['rule'], body['detail']))
    if rp.get('kind') != 'scenario':
        print('replay kind %r: see the "how" field: %s' % (rp.get('kind'), rp.get('how')))
        return 0
    work = vlib.mkwork('verif-replay')
    try:
        binary = vlib.build_harness(work)
        item = rp['item']
        findings, stats = engine_check.run_family(binary, work, [item], meaning_needed='oc' in item and item['oc'] is not None)
        hit = [x for x in findings if x['prop'] == body['property'] and x['rule'] == body['rule']]
        for x in findings:
            print('  observed: %s %s %s' % (x['prop'], x['rule'], x['detail']))
        print('REPRODUCED' if hit else 'NOT REPRODUCED (schedule-dependent findings may need several attempts)')
        return 1 if hit else 0
    finally:
        vlib.rmwork(work)
