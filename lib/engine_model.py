"""Engine.tla (composed run loop + plugin steps + fallback detector + bounded error channel) as the model part of the
engine-level checks, and its binding to the code.

1. model_part: exhaustive exploration per workflow family (atomic handlers and split handlers).  A violation found in
   the MODEL is never a verdict about the code (exit 2, inconclusive: a prediction to be reproduced on the engine).
   Two deliberately broken variants are run in the thorough tier: each must violate its invariant (non-vacuity; they
   are the models of the engine before two repairs, seeded/R-C01-*, seeded/R-C09-* are the same regressions in code).
2. strict_part: recorded executions of the real engine on the model's workflow families (random outcomes, cancellation,
   noise, stalls at every gate, cancellation at every hook point) must be behaviours of Engine.tla in split-handler
   mode (spec/trace/EngineStrict.tla, one recorded event = one model action, unlogged actions inferred).  A rejected
   trace means model and code have drifted apart: it is reported as DRIFT (evidence, not a verdict), because a harmless
   refactoring of the engine may legitimately change the order of its internal steps.  The self-test corrupts accepted
   traces; a corrupted trace that is still accepted means the binding is lost (inconclusive)."""
import concurrent.futures as cf
import json
import os
import random
import re
import shutil
import subprocess

import gen
import strict
import vlib
from vlib import lit, ref, tmap

CFG = '''SPECIFICATION %(spec)s
CONSTANTS
 Family = "%(family)s"
 Custom <- NoCustom
 ErrCap = %(errcap)d
 Retries = %(retries)d
 AllowCancel = %(cancel)s
 DeployWaitChecked = %(dwc)s
 AllOutcomes = %(allout)s
 DetCap = %(detcap)d
 SplitHandlers = %(split)s
 BlockingErrors = %(blocking)s
%(props)s
CHECK_DEADLOCK FALSE
'''

SAFETY = {
    'C01': ['NoBlockedHolder', 'ResultSane', 'AllClosedAtReturn'],
    'C05': ['AllClosedAtReturn'],
    'C07': ['NoPanic'],
    'C09': ['StateSlotTruthful', 'DetectorSoundModuloInFlight'],
}


def B(x):
    return 'TRUE' if x else 'FALSE'


def run_one(ctx, family, invariants, cancel, liveness=False, dwc=True, blocking=False, split=False, errcap=2, timeout_s=1500, workers=None):
    props = ''
    if invariants:
        props += 'INVARIANTS ' + ' '.join(invariants) + '\n'
    if liveness:
        props += 'PROPERTY Terminates\n'
    cfg = CFG % {'spec': 'FairSpec' if liveness else 'Spec', 'family': family, 'cancel': B(cancel), 'dwc': B(dwc), 'blocking': B(blocking),
                 'split': B(split), 'allout': 'FALSE', 'detcap': 2, 'errcap': errcap, 'retries': 1, 'props': props}
    rc, out, td = vlib.tlc(vlib.SPEC, 'Engine', cfg, ctx.work, timeout_s=timeout_s, workers=workers or max(2, vlib.NCPU - 4))
    vlib.rmwork(td)
    st = vlib.tlc_stats(out)
    ok = rc == 0 and 'No error has been found' in out
    viol = None
    for line in out.splitlines():
        if line.startswith('Error: Invariant') or line.startswith('Error: Temporal properties were violated'):
            viol = line.strip()
            break
    return ok, viol, st, out


def model_part(ctx, pid):
    """quick: one step with cancellation, atomic and split handlers (liveness for C01); thorough: chain and fan-in of two
    steps, atomic (with and without cancellation) and split, plus the non-vacuity variants"""
    inv = SAFETY[pid]
    runs = [('single', True, pid == 'C01', False), ('single', True, False, True)]
    if not ctx.quick:
        runs += [('chain2', False, False, False), ('fan2', False, False, False), ('chain2', False, False, True), ('fan2', False, False, True),
                 ('chain2', True, False, False), ('fan2', True, False, False),
                 # a disabled step feeding another; a step stopped by another's success
                 ('dis2', False, False, False), ('dis2', False, False, True), ('stop2', False, False, False), ('stop2', False, False, True),
                 # a loop step alone and behind a plugin step, with cancellation
                 ('loop1', True, False, False), ('loop1', True, False, True), ('loop2', True, False, False), ('loop2', True, False, True)]
    for family, cancel, live, split in runs:
        ok, viol, st, out = run_one(ctx, family, inv, cancel, liveness=live, split=split)
        ctx.cov(states=st.get('distinct', 0), transitions=st.get('generated', 0))
        if not ok:
            ctx.inconclusive('Engine.tla family=%s cancel=%s split=%s: %s (a model-level prediction, to be reproduced on the engine): %s' % (
                family, cancel, split, viol or 'TLC failed', out[-800:]))
    if not ctx.quick:
        # non-vacuity: the model of the engine before each repair must violate the invariant that led to the repair
        if pid == 'C01':
            ok, viol, st, out = run_one(ctx, 'single', ['NoBlockedHolder'], True, blocking=True, errcap=1)
            if ok or not viol or 'NoBlockedHolder' not in viol:
                ctx.inconclusive('Engine.tla with BlockingErrors = TRUE no longer violates NoBlockedHolder: the invariant became vacuous')
        if pid == 'C09':
            ok, viol, st, out = run_one(ctx, 'chain2', ['DetectorSoundModuloInFlight'], False, dwc=False)
            if ok or not viol or 'DetectorSoundModuloInFlight' not in viol:
                ctx.inconclusive('Engine.tla with DeployWaitChecked = FALSE no longer violates DetectorSoundModuloInFlight: the invariant became vacuous')
            # the window of the former known finding KF-C09 (a notification in flight is invisible to the detector; the engine now
            # covers all of it but the instant between a step's state update and its call into the loop) is IN the model: the
            # unqualified statement must be violated there, or model and code have parted ways on the detector hand-shake
            ok, viol, st, out = run_one(ctx, 'chain2', ['DetectorSound'], False)
            if ok or not viol or 'DetectorSound ' not in viol + ' ':
                ctx.inconclusive('Engine.tla no longer violates DetectorSound: the in-flight window (former known finding KF-C09) is not in the model any more')


# ---------------------------------------------------------------------------------------------------------------
# strict mode

STRICT_CFG = '''SPECIFICATION TSpec
CONSTANTS
 Family = "%s"
 Custom <- %s
 CustomFile = "custom.json"
 ErrCap = 20
 Retries = 3
 AllowCancel = TRUE
 DeployWaitChecked = TRUE
 AllOutcomes = TRUE
 DetCap = 60
 SplitHandlers = TRUE
 BlockingErrors = FALSE
 TraceFile = "trace.json"
 SilentCancel = %s
 StopAt = 0
CONSTRAINT Mark
POSTCONDITION Accepted
CHECK_DEADLOCK FALSE
'''


def family_wf(fam):
    a = {'kind': 'plugin', 'pstep': 'work', 'fields': {'input': tmap({'id': lit('a')})}}
    if fam == 'single':
        return {'steps': {'a': a}, 'outputs': {'success': tmap({'r': ref('steps.a.outputs.success.tok')})}}
    if fam == 'chain2':
        b = {'kind': 'plugin', 'pstep': 'work', 'fields': {'input': tmap({'id': lit('b'), 'deps': tmap({'x': ref('steps.a.outputs.success')})})}}
        return {'steps': {'a': a, 'b': b}, 'outputs': {'success': tmap({'r': ref('steps.b.outputs.success')})}}
    b = {'kind': 'plugin', 'pstep': 'work', 'fields': {'input': tmap({'id': lit('b')})}}
    return {'steps': {'a': a, 'b': b}, 'outputs': {'success': tmap({'r': ref('steps.a.outputs.success'), 'q': ref('steps.b.outputs.success')})}}


def strict_scenarios(rng, n, gates, points):
    """(family, description, scenario) triples: random outcomes / cancellation / noise, one stall at a gate, or a
    cancellation triggered at a hook point"""
    out = []
    inp = {'x': 'x', 'n': 1, 'flag': False}
    for k in range(n):
        fam = ['single', 'chain2', 'fan2'][k % 3]
        wf = family_wf(fam)
        steps = list(wf['steps'])
        mode = ['random', 'stall', 'cancel-at'][(k // 3) % 3]
        script = {}
        for s in steps:
            o = rng.choice(['success', 'success', 'error', 'crash', 'deployfail', 'hang']) if mode == 'random' else rng.choice(['success', 'success', 'error'])
            script[s] = {'exec': {'out': 'success' if o in ('crash', 'deployfail', 'hang') else o, 'crash': o == 'crash', 'hang': o == 'hang',
                                  'delay_ms': rng.choice([0, 2, 10, 30]), 'on_cancel': rng.choice(['', '', 'ignore'])},
                         'deploy': {'fail': o == 'deployfail', 'delay_ms': rng.choice([0, 0, 8])}}
        sc = None
        if mode == 'random':
            cancel = rng.choice([None, None, 3, 10, 25, 60])
            if any(script[s]['exec']['hang'] for s in steps) and cancel is None:
                cancel = 40
            sch = gen.noise_schedule(rng, max_us=rng.choice([200, 1000, 3000])) if rng.random() < 0.7 else None
            sc = gen.make_scenario(wf, script, inp, sch, timeout_ms=30000)
            if cancel is not None:
                sc['runs'] = [{'input': inp, 'cancel_after_ms': cancel}]
            desc = 'outcomes %s cancel=%s' % ({s: ('deployfail' if script[s]['deploy']['fail'] else 'crash' if script[s]['exec']['crash'] else 'hang' if script[s]['exec']['hang'] else script[s]['exec']['out']) for s in steps}, cancel)
        elif mode == 'stall':
            pt, st, nth = rng.choice(gates), rng.choice(steps + ['']), rng.choice([1, 2])
            sc = gen.make_scenario(wf, script, inp, {'stalls': [{'point': pt, 'step': st, 'nth': nth, 'ms': rng.choice([50, 90])}]}, timeout_ms=30000)
            desc = 'stall %s@%s#%d' % (pt, st, nth)
        else:
            pt, st, nth = rng.choice(points), rng.choice(steps + ['']), rng.choice([1, 2])
            script[steps[-1]]['exec']['hang'] = True
            sc = gen.make_scenario(wf, script, inp, {'triggers': [{'point': pt, 'step': st, 'nth': nth, 'action': 'cancel', 'run': 0}],
                                                     'noise_seed': rng.randint(1, 1 << 30), 'noise_max_us': 300}, timeout_ms=30000)
            sc['runs'] = [{'input': inp, 'cancel_after_ms': 500}]
            desc = 'cancel at %s@%s#%d' % (pt, st, nth)
        out.append((fam, '%s: %s' % (fam, desc), sc))
    return out


def validate_events(evs, family, work, name, keep=False, custom=None, silent_cancel=False):
    """one TLC run of EngineStrict.tla over one projected trace; returns (accepted, index of the first event that could
    not be consumed or None, tail of TLC output)"""
    d = os.path.join(work, name)
    os.makedirs(d, exist_ok=True)
    shutil.copy(os.path.join(vlib.SPEC, 'Engine.tla'), d)
    shutil.copy(os.path.join(vlib.SPEC, 'trace', 'EngineStrict.tla'), d)
    json.dump(evs, open(os.path.join(d, 'trace.json'), 'w'))
    json.dump(custom or {}, open(os.path.join(d, 'custom.json'), 'w'))
    open(os.path.join(d, 'EngineStrict.cfg'), 'w').write(STRICT_CFG % (family, 'CustomDef' if custom else 'NoCustom', B(silent_cancel)))
    env = dict(os.environ, JAVA_TOOL_OPTIONS='-Dtlc2.tool.queue.IStateQueue=StateDeque -Xss64m')
    p = subprocess.run(['timeout', '300', 'tlc', '-workers', '1', '-metadir', os.path.join(d, 'md'), 'EngineStrict.tla'], cwd=d, capture_output=True, text=True, env=env)
    out = p.stdout + p.stderr
    ok = p.returncode == 0 and 'No error has been found' in out
    m = re.search(r'"STUCK", (\d+)', out)
    ran = ok or m is not None
    st = vlib.tlc_stats(out)
    if not keep:
        shutil.rmtree(d, ignore_errors=True)
    return ok, (int(m.group(1)) if m else None), ran, st, out[-600:]


GEN_PROFILE = dict(max_steps=4, p_tag=0.0, p_enabled=0.3, p_stop=0.35, p_waitfor=0.3, p_deployexpr=0.2, p_sum=0.4, p_multi=0.7, p_error=0.2, p_alt=0.15,
                   p_crash=0.1, p_deployfail=0.1, engine_outputs=True, p_loop=0.3)


def generated_scenarios(rng, n):
    """generated workflows inside the fragment Engine.tla models (Family = "custom"): plugin steps, literal and plain
    reference inputs, wait_for, deploy-time expressions, enabled (true and false), stop_if, loop steps over a scripted sub-workflow, several outputs; random outcomes, noise, cancellation"""
    out = []
    tries = 0
    while len(out) < n and tries < 40 * n + 40:
        tries += 1
        wf, oc, script, inp = gen.gen_workflow(rng, GEN_PROFILE)
        subwfs = wf.pop('_subwfs', None)
        cu = strict.custom_of(wf, oc)
        if cu is None:
            continue
        cancel = rng.choice([None, None, None, 5, 20, 60])
        sch = gen.noise_schedule(rng, max_us=rng.choice([200, 1500])) if rng.random() < 0.7 else None
        sc = gen.make_scenario(wf, script, inp, sch, subwfs=subwfs, timeout_ms=30000)
        if cancel is not None:
            sc['runs'] = [{'input': inp, 'cancel_after_ms': cancel}]
        out.append(('custom', 'generated workflow with %d steps%s, cancel=%s' % (len(cu['steps']), ' (one a loop)' if subwfs else '', cancel), sc, cu))
    return out


def strict_part(ctx, n_quick=24, n_thorough=600, gates=(), points=(), gen_quick=12, gen_thorough=400):
    rng = random.Random(ctx.seed * 31337 + 9)
    scs = [x + (None,) for x in strict_scenarios(rng, n_quick if ctx.quick else n_thorough, list(gates), list(points))]
    scs += generated_scenarios(rng, gen_quick if ctx.quick else gen_thorough)
    # loop steps: the runs a loop starts for its items are engine runs of their own - validated like any other run of
    # the sub-workflow (the parent run contains the loop step, which Engine.tla does not model)
    import check_c13
    sub_cu = strict.custom_of(gen.LOOP_SUB, {})
    nloop = 4 if ctx.quick else 60
    for k in range(nloop):
        n = rng.choice([2, 3, 4])
        outs = [rng.choice(['success', 'success', 'error', 'crash']) for _ in range(n)]
        it = check_c13.loop_item(rng, n, rng.choice([1, 2]), outs)
        sc = gen.make_scenario(it['wf'], it['script'], it['input'], it['schedule'], subwfs=it['subwfs'], timeout_ms=30000)
        cancel = rng.choice([None, None, 10, 30])
        if cancel is not None:
            sc['runs'] = [{'input': it['input'], 'cancel_after_ms': cancel}]
        scs.append(('custom', 'item runs of a loop (%d items %s, cancel=%s)' % (n, outs, cancel), sc, 'SUB'))
    binary = ctx.binary()
    results = vlib.run_scenarios(binary, [x[2] for x in scs], ctx.work, prefix='x')
    jobs = []
    for (fam, desc, sc, cu), r in zip(scs, results):
        if cu == 'SUB':
            if r['result'] is None or not os.path.exists(r['trace']):
                continue
            for k, evs in enumerate(strict.one_run_events(r['trace'], wfout={}, sub_runs=True)):
                jobs.append((fam, desc + ' item run %d' % k, evs, os.path.basename(r['dir']) + '-%d' % k, sub_cu, sc, True))
            continue
        if r['result'] is None or r['code'] not in (0, 3) or not os.path.exists(r['trace']):
            ctx.inconclusive('strict mode: harness died for %s: %s' % (desc, (r['stderr'] or '')[-200:]))
            continue
        if r['result'].get('prepare_err'):
            continue
        runs = strict.one_run_events(r['trace'], wfout={} if cu else None)
        if runs:
            jobs.append((fam, desc, runs[0], os.path.basename(r['dir']), cu, sc, False))
    with cf.ThreadPoolExecutor(max_workers=max(2, vlib.NCPU // 2)) as ex:
        outs = list(ex.map(lambda j: validate_events(j[2], j[0], ctx.work, 'strict-' + j[3], custom=j[4], silent_cancel=j[6]), jobs))
    accepted, events, states = 0, 0, 0
    good = []
    for (fam, desc, evs, name, cu, sc, silent), (ok, stuck, ran, st, tail) in zip(jobs, outs):
        states += st.get('distinct', 0)
        if not ran:
            ctx.inconclusive('EngineStrict.tla did not run for %s: %s' % (desc, tail))
        elif ok:
            accepted += 1
            events += len(evs)
            if not silent:
                good.append((fam, evs, cu))
        else:
            e = evs[stuck - 1] if stuck and stuck <= len(evs) else {}
            # keep what is needed to look at it: the projected events, the workflow record, the scenario
            os.makedirs(os.path.join(vlib.VERIF, 'replays'), exist_ok=True)
            keep = os.path.join(vlib.VERIF, 'replays', 'DRIFT-%s-%s-%d.json' % (ctx.pid, name, ctx.seed))
            json.dump({'family': fam, 'what': desc, 'stuck_at_event': stuck, 'events': evs, 'custom': cu, 'scenario': sc}, open(keep, 'w'))
            ctx.add('DRIFT', 'execution-is-not-a-behaviour-of-Engine.tla', '%s: event %s of %d not allowed: %s (kept in %s)' % (
                desc, stuck, len(evs), {k: v for k, v in e.items() if v not in ('nil', -1, 0, True, False)}, keep))
    # binding self-test: a corrupted trace must be rejected
    rejected = 0
    tried = 0
    for fam, evs, cu in good[:6]:
        e2 = [dict(x) for x in evs]
        cand = [j for j, x in enumerate(e2) if x['k'] in ('Set', 'HB', 'Prov', 'Slot', 'Res', 'HE', 'Exit')]
        if not cand:
            continue
        i = rng.choice(cand)
        kind = tried % 3
        if kind == 0:
            del e2[i]
        elif kind == 1 and e2[i]['k'] == 'Set':
            e2[i]['state'] = 'waiting_for_input' if e2[i]['state'] != 'waiting_for_input' else 'running'
        else:
            e2.insert(i, dict(e2[i]))
        tried += 1
        ok, stuck, ran, st, tail = validate_events(e2, fam, ctx.work, 'strict-self-%d' % tried, custom=cu)
        if ran and not ok:
            rejected += 1
        elif ran:
            ctx.inconclusive('strict mode self-test: a corrupted trace (%s event %d) was accepted by EngineStrict.tla - the binding is lost' % (['dropped', 'changed', 'duplicated'][kind], i + 1))
    ctx.cov(strict_traces=len(jobs), strict_accepted=accepted, strict_events=events, strict_selftest_rejected='%d/%d' % (rejected, tried),
            states=states, traces_validated_against_impl=accepted)
