"""Engine.tla (composed run loop + plugin steps + fallback detector + bounded error channel) as the model part of the
engine-level checks.  The model is explored exhaustively per workflow family; a violation found in the MODEL is never
a verdict about the code (exit 2, inconclusive: the model predicts something that must be reproduced on the real engine
before it counts).  Two deliberately broken variants of the model are also run in the thorough tier: each must violate
its invariant, which shows that the invariants are not vacuous and documents the two repairs the model led to
(seeded/R-C01-blocking-error-send, seeded/R-C09-deploy-wait-unchecked are the same regressions on the real code)."""
import vlib

CFG = '''SPECIFICATION %(spec)s
CONSTANTS
 Family = "%(family)s"
 ErrCap = 2
 Retries = 1
 AllowCancel = %(cancel)s
 DeployWaitChecked = %(dwc)s
 BlockingErrors = %(blocking)s
%(props)s
CHECK_DEADLOCK FALSE
'''

SAFETY = {
    'C01': ['NoBlockedHolder', 'ResultSane', 'AllClosedAtReturn'],
    'C05': ['AllClosedAtReturn'],
    'C07': ['NoPanic'],
    'C09': ['StateSlotTruthful', 'DetectorSoundModuloInFlight'],
}


def run_one(ctx, family, invariants, cancel, liveness=False, dwc=True, blocking=False, timeout_s=1500, workers=None):
    props = ''
    if invariants:
        props += 'INVARIANTS ' + ' '.join(invariants) + '\n'
    if liveness:
        props += 'PROPERTY Terminates\n'
    cfg = CFG % {'spec': 'FairSpec' if liveness else 'Spec', 'family': family, 'cancel': 'TRUE' if cancel else 'FALSE',
                 'dwc': 'TRUE' if dwc else 'FALSE', 'blocking': 'TRUE' if blocking else 'FALSE', 'props': props}
    rc, out, td = vlib.tlc(vlib.SPEC, 'Engine', cfg, ctx.work, timeout_s=timeout_s, workers=workers or max(2, vlib.NCPU - 4))
    vlib.rmwork(td)
    st = vlib.tlc_stats(out)
    ok = rc == 0 and 'No error has been found' in out
    viol = None
    for line in out.splitlines():
        if line.startswith('Error: Invariant') or line.startswith('Error: Temporal properties were violated'):
            viol = line.strip()
            break
    return ok, viol, st, out


def model_part(ctx, pid):
    """explores Engine.tla for the invariants relevant to property pid; quick: one-step family with cancellation;
    thorough: also the two-step families (chain and fan-in) and the non-vacuity variants"""
    inv = SAFETY[pid]
    runs = [('single', True, pid == 'C01')]
    if not ctx.quick:
        runs += [('chain2', False, False), ('fan2', False, False)]
    for family, cancel, live in runs:
        ok, viol, st, out = run_one(ctx, family, inv, cancel, liveness=live)
        ctx.cov(states=st.get('distinct', 0), transitions=st.get('generated', 0))
        if not ok:
            ctx.inconclusive('Engine.tla family=%s cancel=%s: %s (a model-level prediction, to be reproduced on the engine): %s' % (
                family, cancel, viol or 'TLC failed', out[-800:]))
    if not ctx.quick:
        # non-vacuity: the model of the engine before each repair must violate the invariant that led to the repair
        if pid == 'C01':
            ok, viol, st, out = run_one(ctx, 'single', ['NoBlockedHolder'], True, blocking=True)
            if ok or not viol or 'NoBlockedHolder' not in viol:
                ctx.inconclusive('Engine.tla with BlockingErrors = TRUE no longer violates NoBlockedHolder: the invariant became vacuous')
        if pid == 'C09':
            ok, viol, st, out = run_one(ctx, 'chain2', ['DetectorSoundModuloInFlight'], False, dwc=False)
            if ok or not viol or 'DetectorSoundModuloInFlight' not in viol:
                ctx.inconclusive('Engine.tla with DeployWaitChecked = FALSE no longer violates DetectorSoundModuloInFlight: the invariant became vacuous')
