"""Seeded generator of abstract workflows + outcome vectors + harness scripts (DESIGN G.3).
The abstract record is produced first; YAML, the TLA+ case and the harness script are all rendered from it."""
import random
from vlib import *


def oc_plugin(rng, profile):
    r = rng.random()
    p = profile
    d = {'deploy': 'ok', 'enabled': True, 'start': 'ok', 'beh': 'success'}
    if r < p.get('p_deployfail', 0.08):
        d['deploy'] = 'fail'
    elif r < p.get('p_deployfail', 0.08) + p.get('p_startfail', 0.05):
        d['start'] = 'fail'       # deployed, but the connection cannot be read from: the step fails to start (crashed)
    r = rng.random()
    if r < p.get('p_error', 0.15):
        d['beh'] = 'error'
    elif r < p.get('p_error', 0.15) + p.get('p_alt', 0.1):
        d['beh'] = 'alt'
    elif r < p.get('p_error', 0.15) + p.get('p_alt', 0.1) + p.get('p_crash', 0.08):
        d['beh'] = 'crash'
    return d


REFKINDS_BASIC = ['succ_tok', 'succ_tok', 'succ_tok', 'succ_obj', 'alt_tok', 'err_reason', 'started', 'enabled_v', 'succ_n']
REFKINDS_ENGINE = ['disabled_msg', 'crashed_out', 'deployfail_err']


LOOP_SUB = {'input_schema': {'root': 'SubIn', 'objects': {'SubIn': {'id': 'SubIn', 'properties': {'id': {'type': {'type_id': 'string'}, 'required': True}}}}},
            'steps': {'w': {'kind': 'plugin', 'pstep': 'work', 'src': 'w', 'fields': {'input': tmap({'id': ref('input.id')})}}},
            'outputs': {'success': tmap({'tok': ref('steps.w.outputs.success.tok'), 'n': ref('steps.w.outputs.success.n')})}}


def mkref(kind, j):
    if kind == 'succ_tok':
        return ref('steps.%s.outputs.success.tok' % j)
    if kind == 'succ_n':
        return ref('steps.%s.outputs.success.n' % j)
    if kind == 'succ_obj':
        return ref('steps.%s.outputs.success' % j)
    if kind == 'alt_tok':
        return ref('steps.%s.outputs.alt.tok' % j)
    if kind == 'err_reason':
        return ref('steps.%s.outputs.error.reason' % j)
    if kind == 'started':
        return ref('steps.%s.starting.started' % j)
    if kind == 'enabled_v':
        return ref('steps.%s.enabling.resolved.enabled' % j)
    if kind == 'disabled_msg':
        return ref('steps.%s.disabled.output.message' % j)
    if kind == 'crashed_out':
        return ref('steps.%s.crashed.error.output' % j)
    if kind == 'deployfail_err':
        return ref('steps.%s.deploy_failed.error.error' % j)
    if kind == 'loop_data':
        return ref('steps.%s.outputs.success.data' % j)
    if kind == 'loop_failed':
        return ref('steps.%s.failed.error' % j)
    raise ValueError(kind)


def mksum(rng, earlier, first=None):
    """an expression over two producers (string concatenation); its value is not predicted, its dependencies are.
    (Integer arithmetic on plugin outputs is avoided here: positive integers arrive from the plugin as uint64, which the
    expression library cannot add - exercised separately by C07.)"""
    a = first or rng.choice(earlier)
    if rng.random() < 0.3:
        # two different nodes of ONE producer in one expression, the one that resolves first named first
        return fexpr('boolToString($.steps.%s.enabling.resolved.enabled) + $.steps.%s.outputs.success.tok' % (a, a),
                     ['steps.%s.enabling.resolved.enabled' % a, 'steps.%s.outputs.success.tok' % a])
    others = [x for x in earlier if x != a]
    b = rng.choice(others) if others else a
    return fexpr('$.steps.%s.outputs.success.tok + $.steps.%s.outputs.success.tok' % (a, b),
                 ['steps.%s.outputs.success.tok' % a, 'steps.%s.outputs.success.tok' % b])


def mktag(rng, j, profile):
    k = rng.choice(profile.get('tags', ['wait', 'soft', 'oneof', 'ordisabled', 'oneofopt']))
    if k == 'wait':
        others = profile.get('_ids') or [j]
        if rng.random() < profile.get('p_wait2', 0.3) and others:
            # two sources: present only if both were produced
            j2 = rng.choice(others)
            return {'t': 'opt', 'wait': True, 'e': fexpr('$.steps.%s.outputs.success.tok + $.steps.%s.outputs.success.tok' % (j, j2),
                                                        ['steps.%s.outputs.success.tok' % j, 'steps.%s.outputs.success.tok' % j2])}
        return opt('steps.%s.outputs.%s' % (j, rng.choice(['success', 'success', 'alt', 'error'])), True)
    if k == 'soft':
        return opt('steps.%s.outputs.%s' % (j, rng.choice(['success', 'success', 'alt'])), False)
    if k == 'oneof':
        outs = rng.sample(['success', 'alt', 'error'], rng.randint(2, 3))
        return oneof(rng.choice(['kind', 'result', 'which']), {o: ref('steps.%s.outputs.%s' % (j, o)) for o in outs})
    if k == 'ordisabled':
        return ordisabled('steps.%s.outputs%s' % (j, rng.choice(['.success', '.success', ''])))
    if k == 'oneofopt':
        # a one-of whose options are maps carrying an optional field of their own (another step's output)
        others = profile.get('_ids') or [j]
        j2 = rng.choice(others)
        return oneof(rng.choice(['kind', 'which']), {
            'ok': tmap({'v': ref('steps.%s.outputs.success.tok' % j), 'w': opt('steps.%s.outputs.success' % j2, rng.random() < 0.5)}),
            'bad': tmap({'v': ref('steps.%s.outputs.error.reason' % j)})})
    raise ValueError(k)


def gen_workflow(rng, profile):
    """returns (wf abstract, oc, script, input value)"""
    n = rng.randint(profile.get('min_steps', 1), profile.get('max_steps', 4))
    ids = ['s%d' % i for i in range(n)]
    wf = {'steps': {}, 'outputs': {}}
    oc = {}
    script = {}
    inp = {'x': 'xv%d' % rng.randint(0, 9), 'n': rng.randint(0, 99), 'flag': rng.random() < 0.7}
    p_tag = profile.get('p_tag', 0.0)
    kinds = REFKINDS_BASIC + (REFKINDS_ENGINE if profile.get('engine_outputs') else [])
    profile = dict(profile, _ids=None)
    loops = set()
    subwfs = {}
    for i, s in enumerate(ids):
        profile['_ids'] = [x for x in ids[:i] if x not in loops]
        if i > 0 and not loops and rng.random() < profile.get('p_loop', 0.0):
            # a loop step over a literal item list; its sub-workflow runs one scripted step per item
            n_items = rng.randint(1, 3)
            outs = [rng.choice(['success', 'success', 'success', 'error', 'crash']) for _ in range(n_items)]
            fields = {'items': lit([{'id': '%s-i%d' % (s, k)} for k in range(n_items)]), 'parallelism': lit(rng.choice([1, 2]))}
            plug = [x for x in ids[:i] if x not in loops]
            if plug and rng.random() < 0.5:
                fields['wait_for'] = ref('steps.%s.outputs.success' % rng.choice(plug))
            wf['steps'][s] = {'kind': 'foreach', 'workflow': 'sub.yaml', 'fields': fields}
            allok = all(o == 'success' for o in outs)
            oc[s] = {'enabled': True, 'beh': 'success' if allok else 'failed'}
            script.setdefault('w', {'exec': {'out': 'success'}, 'exec_by_id': {}})
            for k, o in enumerate(outs):
                script['w']['exec_by_id']['%s-i%d' % (s, k)] = {'out': o if o != 'crash' else 'success', 'crash': o == 'crash', 'delay_ms': rng.choice([0, 2, 6]), 'n': k}
            subwfs['sub.yaml'] = LOOP_SUB
            loops.add(s)
            continue
        o = oc_plugin(rng, profile)
        fields = {}
        deps = {}
        earlier = [x for x in ids[:i] if x not in loops]
        for lp in sorted(loops):
            if rng.random() < 0.6:
                # a consumer of the loop's result (or of its failure report)
                pass
        nd = rng.randint(0, min(3, len(earlier) + 1)) if earlier else 0
        for d in range(nd):
            j = rng.choice(earlier)
            if rng.random() < p_tag:
                deps['t%d' % d] = mktag(rng, j, profile)
            else:
                deps['d%d' % d] = mkref(rng.choice(kinds), j)
        if rng.random() < 0.25:
            deps['lit'] = lit(rng.choice([7, 'str', True, [1, 2], {'k': 'v'}]))
        if rng.random() < 0.2 and earlier:
            # a list mixing literals and references, in either order (a reference after a literal is a dependency too)
            lk = [mkref('succ_tok', rng.choice(earlier)), lit('z')]
            if rng.random() < 0.5:
                lk.reverse()
            if rng.random() < 0.3:
                lk.append(mkref('succ_tok', rng.choice(earlier)))
            deps['lst'] = tlist(lk)
        if earlier and rng.random() < profile.get('p_sum', 0.3):
            # a second reference to a producer followed by another producer inside ONE expression, after an expression
            # that already referenced the first (list order makes the processing order deterministic)
            a = rng.choice(earlier)
            deps['sums'] = tlist([mkref('succ_tok', a), mksum(rng, earlier, first=a)])
        if earlier and rng.random() < profile.get('p_sum', 0.3) * 0.5:
            deps['sum'] = mksum(rng, earlier)
        for lp in sorted(loops):
            if rng.random() < 0.6:
                deps['loop'] = mkref(rng.choice(['loop_data', 'loop_data', 'loop_failed']), lp)
        inm = {'id': lit(s)}
        if deps:
            inm['deps'] = tmap(deps)
        if rng.random() < 0.4:
            inm['s'] = ref('input.x')
        if rng.random() < 0.2:
            inm['n'] = ref('input.n')
        fields['input'] = tmap(inm)
        if earlier and rng.random() < profile.get('p_waitfor', 0.2):
            j = rng.choice(earlier)
            wchoices = ['steps.%s.outputs' % j, 'steps.%s.outputs.success' % j, 'steps.%s.starting.started' % j]
            if profile.get('engine_outputs'):
                # wait_for takes a value of any type: every engine-generated output object must be acceptable there
                wchoices += ['steps.%s.crashed.error' % j, 'steps.%s.deploy_failed.error' % j, 'steps.%s.closed.result' % j,
                             'steps.%s.disabled.output' % j, 'steps.%s.enabling.resolved' % j]
            fields['wait_for'] = ref(rng.choice(wchoices))
        r = rng.random()
        if r < profile.get('p_enabled', 0.25):
            k = rng.choice(['lit', 'flag', 'dep'] if earlier else ['lit', 'flag'])
            if k == 'lit':
                v = rng.random() < 0.6
                fields['enabled'] = lit(v)
                o['enabled'] = v
            elif k == 'flag':
                fields['enabled'] = ref('input.flag')
                o['enabled'] = inp['flag']
            else:
                j = rng.choice(earlier)
                fields['enabled'] = ref('steps.%s.enabling.resolved.enabled' % j)
                o['enabled'] = oc[j]['enabled']   # only evaluated if j reaches that point
        pstep = rng.choice(['work', 'work', 'nowork'])
        o['stop'] = False
        if pstep == 'work' and rng.random() < profile.get('p_stop', 0.0):
            k = rng.choice(['flag', 'dep', 'dep'] if earlier else ['flag'])
            if k == 'flag':
                fields['stop_if'] = ref('input.flag')
                o['stop'] = inp['flag']
            else:
                j = rng.choice(earlier)
                fields['stop_if'] = mkref(rng.choice(['succ_tok', 'started']), j)
                o['stop'] = True     # any produced (non-false) value stops the step
        if rng.random() < profile.get('p_deployexpr', 0.1):
            fields['deploy'] = tmap({'deployer_name': lit('scripted'), 'tag': (mkref('succ_tok', rng.choice(earlier)) if earlier and rng.random() < 0.6 else ref('input.x'))})
        wf['steps'][s] = {'kind': 'plugin', 'pstep': pstep, 'fields': fields}
        oc[s] = o
        ex = {'out': {'crash': 'success'}.get(o['beh'], o['beh']), 'crash': o['beh'] == 'crash', 'delay_ms': rng.choice([0, 0, 1, 3, 8]), 'n': rng.randint(0, 50)}
        script[s] = {'deploy': {'fail': o['deploy'] == 'fail', 'delay_ms': rng.choice([0, 0, 2])}, 'exec': ex}
        if o.get('start') == 'fail':
            script[s]['deploy']['fail_read'] = True
    # outputs
    pids = [x for x in ids if x not in loops]
    def out_tree(kind_pool, must=None):
        kids = {}
        profile['_ids'] = pids
        if len(pids) >= 2 and rng.random() < profile.get('p_sum', 0.3):
            a = rng.choice(pids)
            kids['sums'] = tlist([mkref('succ_tok', a), mksum(rng, pids, first=a)])
        for d in range(rng.randint(1, 3)):
            j = rng.choice(pids)
            if rng.random() < p_tag:
                kids['t%d' % d] = mktag(rng, j, profile)
            else:
                kids['o%d' % d] = mkref(rng.choice(kind_pool), j)
        if must:
            kids['m'] = must
        return tmap(kids)
    last = pids[-1]
    wf['outputs']['success'] = out_tree(['succ_tok', 'succ_tok', 'succ_obj', 'succ_n'], mkref('succ_tok', last))
    if rng.random() < profile.get('p_multi', 0.6):
        j = rng.choice(pids)
        wf['outputs']['failure'] = tmap({'why': mkref('err_reason', j)})
    if rng.random() < profile.get('p_multi', 0.6) * 0.5:
        j = rng.choice(pids)
        wf['outputs']['other'] = tmap({'a': mkref('alt_tok', j)})
    if profile.get('engine_outputs') and rng.random() < 0.5:
        j = rng.choice(pids)
        wf['outputs']['broken'] = tmap({'why': mkref(rng.choice(REFKINDS_ENGINE), j)})
    for lp in sorted(loops):
        wf['outputs']['success']['kids']['loop'] = mkref('loop_data', lp)
        if rng.random() < 0.6:
            wf['outputs']['loopfailed'] = tmap({'e': mkref('loop_failed', lp)})
    if subwfs:
        wf['_subwfs'] = subwfs
    return wf, oc, script, inp


def input_leaves(inp):
    return leaves_json(flatten(inp))


def make_scenario(wf, script, inp, schedule=None, timeout_ms=20000, **kw):
    sc = {'files': {'workflow.yaml': render_workflow(wf)}, 'main': 'workflow.yaml', 'runs': [{'input': inp}],
          'script': script, 'timeout_ms': timeout_ms}
    for fname, sub in (kw.pop('subwfs', None) or {}).items():
        sc['files'][fname] = render_workflow(sub)
    if schedule:
        sc['schedule'] = schedule
    sc.update(kw)
    return sc


def noise_schedule(rng, max_us=300, pct=30):
    return {'noise_seed': rng.randint(1, 1 << 30), 'noise_max_us': max_us, 'noise_pct': pct}
