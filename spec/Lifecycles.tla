----------------------------- MODULE Lifecycles -----------------------------
(* The two step lifecycles as constant tables, read from internal/step/plugin/provider.go and
   internal/step/foreach/provider.go: stages, which workflow fields feed which stage, next-stage dependency
   types, declared outputs per stage.                                                                          *)
EXTENDS Naturals, Sequences, FiniteSets

StagesOf(kind) ==
  IF kind = "plugin"
    THEN {"deploy", "deploy_failed", "enabling", "starting", "running", "cancelled", "disabled", "outputs", "crashed", "closed"}
    ELSE {"execute", "outputs", "failed", "enabling", "disabled", "closed"}

\* declared output ids of a stage; PluginOuts = the output ids the plugin's step schema declares
DeclaredOf(kind, stage, PluginOuts) ==
  IF kind = "plugin" THEN
    CASE stage = "deploy_failed" -> {"error"}
      [] stage = "enabling"      -> {"resolved"}
      [] stage = "starting"      -> {"started"}
      [] stage = "disabled"      -> {"output"}
      [] stage = "crashed"       -> {"error"}
      [] stage = "closed"        -> {"result"}
      [] stage = "outputs"       -> PluginOuts
      [] OTHER                   -> {}
  ELSE
    CASE stage = "outputs"  -> {"success"}
      [] stage = "failed"   -> {"error"}
      [] stage = "enabling" -> {"resolved"}
      [] stage = "disabled" -> {"output"}
      [] stage = "closed"   -> {"result"}
      [] OTHER              -> {}

\* <<next stage, dependency type>> : `next` depends on `stage` with that type
NextStagesOf(kind, stage) ==
  IF kind = "plugin" THEN
    CASE stage = "deploy"    -> {<<"starting", "and">>, <<"deploy_failed", "cand">>, <<"closed", "cand">>}
      [] stage = "enabling"  -> {<<"starting", "and">>, <<"disabled", "and">>, <<"crashed", "cand">>, <<"closed", "cand">>}
      [] stage = "starting"  -> {<<"running", "and">>, <<"crashed", "cand">>, <<"closed", "cand">>}
      [] stage = "running"   -> {<<"outputs", "and">>, <<"crashed", "cand">>, <<"closed", "cand">>}
      [] stage = "cancelled" -> {<<"outputs", "cand">>, <<"crashed", "cand">>, <<"deploy_failed", "cand">>, <<"closed", "cand">>}
      [] OTHER               -> {}
  ELSE
    CASE stage = "execute"  -> {<<"outputs", "and">>, <<"failed", "cand">>}
      [] stage = "enabling" -> {<<"execute", "and">>, <<"disabled", "and">>, <<"closed", "cand">>}
      [] OTHER              -> {}

\* workflow-level fields that form the input of a stage
FieldsOf(kind, stage) ==
  IF kind = "plugin" THEN
    CASE stage = "deploy"    -> {"deploy"}
      [] stage = "enabling"  -> {"enabled"}
      [] stage = "starting"  -> {"input", "wait_for", "closure_wait_timeout"}
      [] stage = "cancelled" -> {"stop_if"}
      [] OTHER               -> {}
  ELSE
    CASE stage = "execute"  -> {"items", "parallelism", "wait_for"}
      [] stage = "enabling" -> {"enabled"}
      [] OTHER              -> {}

\* stages whose node carries an input schema, i.e. stages the run loop calls ProvideStageInput for
HasInput(kind, stage) == FieldsOf(kind, stage) # {}

\* Stages that may end a step (OnStepComplete) with their single output
FinalStages(kind) ==
  IF kind = "plugin" THEN {"deploy_failed", "disabled", "outputs", "crashed", "closed"}
                     ELSE {"outputs", "failed", "disabled", "closed"}
=============================================================================
