------------------------------ MODULE Engine ------------------------------
(* The composed, implementation-shaped model: run loop (workflow/workflow.go) + plugin steps
   (internal/step/plugin/provider.go) + fallback deadlock detector + bounded error channel written under the run lock.
   One action per critical section; straight-line code between blocking points of a step is a queue of micro-ops
   (Set = assignment under the step lock, SC/CO/F = notification, which needs the run lock).  Workflow families are
   selected by the constant Family; outcome vectors are nondeterministic.  Sparse dgraph, required references only.
   It reflects the engine AFTER the repairs of DESIGN 14.1 (one "no more outputs" report per output, truthful
   waiting state once input was provided).  Deliberate, named deviation that is still in the code and therefore in
   the model: a notification in flight is invisible to the detector (DESIGN 14.2) - see DetectorSoundModuloInFlight. *)
EXTENDS Naturals, Sequences, FiniteSets, TLC

CONSTANTS Family,     \* which workflow: one of the built-in families, or "custom" = the workflow given by Custom
          Custom,     \* [steps : sequence of ids, refs : id -> stage -> sequence of nodes, outputs : id -> sequence of nodes]
                      \* (only read when Family = "custom": trace validation of generated workflows)
          ErrCap, Retries, AllowCancel,
          DeployWaitChecked, \* FALSE = the engine before the repair of DESIGN 14.1 (deploy stage): after a failed non-blocking
                          \* receive the step declares itself waiting without looking whether the input arrived meanwhile
          AllOutcomes,    \* TRUE: every step may succeed, return its error output, crash, hang or fail to deploy (trace
                          \* validation); FALSE: the outcome model of the family (keeps exhaustive exploration small)
          DetCap,         \* bound on the number of pending detector checks counted per (step, retries) - 2 for exhaustive
                          \* exploration, large for trace validation
          SplitHandlers,  \* TRUE: a handler's effects outside the run loop's private state (each input handed to a step, each
                          \* error report, the output hand-over) are separate steps taken while the run lock is held, as in
                          \* the code (each has its own critical section / channel operation); FALSE: one atomic step
          BlockingErrors  \* TRUE = the engine before the repair of DESIGN 14.1 (reportError): a send into the full error
                          \* channel blocks while the run lock is held; FALSE = the repaired engine drops the error

ASSUME Retries >= 1 /\ ~(SplitHandlers /\ BlockingErrors)
NoCustom == [steps |-> <<>>, refs |-> <<>>, outputs |-> <<>>, enabled |-> <<>>, stop |-> <<>>, kinds |-> <<>>]
Nil == "nil"
AND == "and"  CAND == "cand"  NONE == "-"

----------------------------------------------------------------------------
\* Workflow families (abstract syntax): Steps, references of the starting stage, outputs, outcome model
RangeOf(f) == {f[x] : x \in DOMAIN f}
Steps == CASE Family = "custom" -> RangeOf(Custom.steps) [] Family \in {"dis2", "stop2", "loop2"} -> {"a", "b"} [] Family \in {"single", "loop1"} -> {"a"} [] Family = "chain2" -> {"a", "b"} [] Family = "fan2" -> {"a", "b"}
           [] Family = "fan3" -> {"a", "b", "c"} [] Family = "detector" -> {"a", "b"}

St(s, st) == <<"st", s, st>>
So(s, st, o) == <<"so", s, st, o>>
Out(id) == <<"out", id>>
InNode == <<"in">>

\* what the expressions of a stage's input refer to (input and wait_for feed the starting stage, deploy feeds deploy)
StageRefs(s, st) == CASE Family = "custom" -> (IF st \in DOMAIN Custom.refs[s] THEN RangeOf(Custom.refs[s][st]) ELSE {})
                      [] Family = "chain2" /\ s = "b" /\ st = "starting" -> {So("a", "outputs", "success")}
                      [] Family = "dis2" /\ s = "b" /\ st = "starting" -> {So("a", "disabled", "output")}     \* b runs because a is disabled
                      [] Family = "loop2" /\ s = "b" /\ st = "execute" -> {So("a", "outputs", "success")}     \* the loop waits for a
                      [] Family = "stop2" /\ s = "a" /\ st = "cancelled" -> {So("b", "outputs", "success")}   \* a is stopped when b has succeeded
                      [] OTHER -> {}
\* the value of a step's enabled expression ("T" when it has none) and whether its stop condition is true when evaluated
EnabledVal(s) == CASE Family = "custom" -> Custom.enabled[s] [] Family = "dis2" /\ s = "a" -> "F" [] OTHER -> "T"
StopVal(s) == CASE Family = "custom" -> Custom.stop[s] [] Family = "stop2" /\ s = "a" -> "T" [] OTHER -> "F"
OutputIds == CASE Family = "custom" -> DOMAIN Custom.outputs [] OTHER -> {"o"}
OutRefs(id) == CASE Family = "custom" -> RangeOf(Custom.outputs[id])
                 [] Family \in {"single", "stop2", "loop1"} -> {So("a", "outputs", "success")}
                 [] Family = "loop2" -> {So("b", "outputs", "success")}
                 [] Family = "dis2" -> {So("b", "outputs", "success")}
                 [] Family = "chain2" -> {So("b", "outputs", "success")}
                 [] Family \in {"fan2", "fan3"} -> {So(s, "outputs", "success") : s \in Steps}
                 [] Family = "detector" -> {So("a", "crashed", "error"), So("b", "outputs", "success")}
\* outcome model: which results the plugin may produce; deployment may fail or not
Beh(s) == CASE AllOutcomes -> {"success", "error", "alt", "err", "hang"}
            [] Family \in {"fan2", "fan3"} /\ s = "a" -> {"error"}
            [] Family \in {"fan2", "fan3"} -> {"success", "hang"}
            [] OTHER -> {"success", "error", "err"}
DeployMayFail(s) == AllOutcomes \/ Family \in {"single", "chain2"}
\* the deployment succeeded but the plugin's schema cannot be read over the connection: the step fails to start (crashed)
StartMayFail(s) == AllOutcomes \/ Family = "single"
HasHandler(s) == TRUE

\* step kinds and their lifecycles (tables as in Lifecycles.tla; "foreach" = a loop step over a sub-workflow, whose item
\* runs are engine runs of their own - here only the time they take and their joint verdict)
Kind(s) == CASE Family = "custom" -> Custom.kinds[s] [] Family = "loop1" /\ s = "a" -> "foreach" [] Family = "loop2" /\ s = "b" -> "foreach"
             [] OTHER -> "plugin"
PluginStages == {"deploy", "deploy_failed", "enabling", "starting", "running", "cancelled", "disabled", "outputs", "crashed", "closed"}
LoopStages == {"enabling", "disabled", "execute", "outputs", "failed", "closed"}
Stages == PluginStages \cup LoopStages
StagesOf(s) == IF Kind(s) = "plugin" THEN PluginStages ELSE LoopStages
Declared(s, st) ==
  IF Kind(s) = "plugin" THEN
    CASE st = "deploy_failed" -> {"error"} [] st = "enabling" -> {"resolved"} [] st = "starting" -> {"started"}
      [] st = "disabled" -> {"output"} [] st = "crashed" -> {"error"} [] st = "closed" -> {"result"}
      [] st = "outputs" -> {"success", "error", "alt", "cancelled_early"} [] OTHER -> {}
  ELSE
    CASE st = "outputs" -> {"success"} [] st = "failed" -> {"error"} [] st = "enabling" -> {"resolved"}
      [] st = "disabled" -> {"output"} [] st = "closed" -> {"result"} [] OTHER -> {}
NextStages(s, a) ==
  IF Kind(s) = "plugin" THEN
    CASE a = "deploy"    -> {<<"starting", AND>>, <<"deploy_failed", CAND>>, <<"closed", CAND>>}
      [] a = "enabling"  -> {<<"starting", AND>>, <<"disabled", AND>>, <<"crashed", CAND>>, <<"closed", CAND>>}
      [] a = "starting"  -> {<<"running", AND>>, <<"crashed", CAND>>, <<"closed", CAND>>}
      [] a = "running"   -> {<<"outputs", AND>>, <<"crashed", CAND>>, <<"closed", CAND>>}
      [] a = "cancelled" -> {<<"outputs", CAND>>, <<"crashed", CAND>>, <<"deploy_failed", CAND>>, <<"closed", CAND>>}
      [] OTHER -> {}
  ELSE
    CASE a = "execute"  -> {<<"outputs", AND>>, <<"failed", CAND>>}
      [] a = "enabling" -> {<<"execute", AND>>, <<"disabled", AND>>, <<"closed", CAND>>}
      [] OTHER -> {}
InputStages(s) == IF Kind(s) = "plugin" THEN {"deploy", "enabling", "starting", "cancelled"} ELSE {"enabling", "execute"}
HasInput(s, st) == st \in InputStages(s)

AllNode == {InNode} \cup UNION {{St(s, st) : st \in StagesOf(s)} : s \in Steps}
           \cup UNION {{So(s, st, o) : o \in Declared(s, st)} : s \in Steps, st \in Stages}
           \cup {Out(id) : id \in OutputIds}

\* edges <<m, n, t>>: m depends on n
Edges == UNION {{<<St(s, nx[1]), St(s, a), nx[2]>> : nx \in NextStages(s, a)} : s \in Steps, a \in Stages}
         \cup UNION {{<<So(s, st, o), St(s, st), AND>> : o \in Declared(s, st)} : s \in Steps, st \in Stages}
         \cup UNION {UNION {{<<St(s, st), r, AND>> : r \in StageRefs(s, st)} : st \in InputStages(s)} : s \in Steps}
         \cup UNION {{<<Out(id), r, AND>> : r \in OutRefs(id)} : id \in OutputIds}
E == {<<e[1], e[2]>> : e \in Edges}
TypeOf(m, n) == (CHOOSE e \in Edges : e[1] = m /\ e[2] = n)[3]
DepsOf(m) == {e[2] : e \in {x \in E : x[1] = m}}
OutOf(n) == {e[1] : e \in {x \in E : x[2] = n}}

----------------------------------------------------------------------------
\* dgraph over sparse edges: g = [st : AllNode -> {W,R,U}, od : E -> type|NONE, ready]
Hard(t) == t \in {AND, "or", CAND}
HasOutT(g, m, t) == \E n \in DepsOf(m) : g.od[<<m, n>>] = t
G0 == [st |-> [n \in AllNode |-> "W"], od |-> [e \in E |-> TypeOf(e[1], e[2])], ready |-> {}]
PushStarting(g) == [g EXCEPT !.ready = {m \in AllNode : \A n \in DepsOf(m) : ~Hard(g.od[<<m, n>>])}]
MarkReady(g, m) == [g EXCEPT !.ready = @ \cup {m}]
DepResolved(g, m, n, s) ==
  LET t  == g.od[<<m, n>>]
      g1 == [g EXCEPT !.od[<<m, n>>] = NONE]
  IN  IF s = "U" /\ t # CAND
        THEN [g |-> MarkReady(g1, m), more |-> TRUE]          \* only AND here (no OR in the prototype)
        ELSE IF HasOutT(g1, m, AND) \/ HasOutT(g1, m, CAND) THEN [g |-> g1, more |-> FALSE]
             ELSE [g |-> MarkReady(g1, m), more |-> FALSE]
Seqify(S) == LET RECURSIVE F(_) F(T) == IF T = {} THEN <<>> ELSE LET x == CHOOSE y \in T : TRUE IN <<x>> \o F(T \ {x}) IN F(S)
RECURSIVE Resolve(_, _, _)
RECURSIVE VisitOut(_, _, _, _)
Resolve(g, n, s) ==
  IF g.st[n] # "W"
    THEN IF g.st[n] = "R" \/ s # "U" THEN [g |-> g, err |-> TRUE] ELSE [g |-> g, err |-> FALSE]
    ELSE VisitOut([g EXCEPT !.st[n] = s], n, s, Seqify(OutOf(n)))
VisitOut(g, n, s, todo) ==
  IF todo = <<>> THEN [g |-> g, err |-> FALSE]
  ELSE LET m == Head(todo)  r == DepResolved(g, m, n, s)
           r2 == IF r.more THEN Resolve(r.g, m, "U") ELSE [g |-> r.g, err |-> FALSE]
       IN IF r2.err THEN r2 ELSE VisitOut(r2.g, n, s, Tail(todo))

----------------------------------------------------------------------------
VARIABLES g, produced, waitingOutputs, outputDone, outCh, errq, lockHolder, blocked, hq, runCtx, parentCancelled,
          mainPc, result, det, termTodo, termCur, panicked,
          stage, state, prevStage, pend, cont, slotD, slotE, slotR, stepCtx, closedFlag, conn, exec, execRes,
          sigNil, sigQ, resQ, wg, execStarted, fired

rl == <<g, produced, waitingOutputs, outputDone, outCh, errq, lockHolder, blocked, hq, runCtx, parentCancelled,
        mainPc, result, det, termTodo, termCur, panicked, fired>>
sv == <<stage, state, prevStage, pend, cont, slotD, slotE, slotR, stepCtx, closedFlag, conn, exec, execRes,
        sigNil, sigQ, resQ, wg, execStarted>>
vars == <<rl, sv>>

Set(st, sa)        == [op |-> "Set", stage |-> st, state |-> sa]
SetSt(sa)          == [op |-> "SetSt", state |-> sa]
SC(out)            == [op |-> "SC", out |-> out]
SC0                == [op |-> "SC0"]
CO(out)            == [op |-> "CO", out |-> out]
F(st)              == [op |-> "F", stage |-> st]
FromFailed(st, sa) == [op |-> "SetFF", stage |-> st, state |-> sa]
Failures(from) ==
  CASE from = "enabling" -> <<F("enabling"), F("disabled"), F("starting"), F("running"), F("outputs")>>
    [] from = "starting" -> <<F("starting"), F("running"), F("outputs")>>
    [] from = "running"  -> <<F("running"), F("outputs")>>
    [] from = "outputs"  -> <<F("outputs")>>
ClosedEarly(from, priorFailed) ==
  (IF priorFailed THEN <<FromFailed("closed", "running"), F("$prev")>> ELSE <<Set("closed", "running"), SC(Nil)>>)
  \o <<Set("closed", "finished"), CO("result")>> \o Failures(from)
DeployFailedScript == <<Set("deploy_failed", "running"), SC(Nil), Set("deploy_failed", "finished"), CO("error")>>
                      \o Failures("enabling") \o <<F("closed")>>
StartFailedScript == <<FromFailed("crashed", "running"), F("$prev"), Set("crashed", "finished"), CO("error")>>
                     \o Failures("running") \o <<F("closed")>>
RunFailedScript == <<Set("crashed", "running"), SC(Nil), Set("crashed", "finished"), CO("error")>>
                   \o Failures("outputs") \o <<F("closed")>>
DisabledScript == <<Set("disabled", "running"), SC("resolved"), Set("disabled", "finished"), CO("output")>>
                  \o Failures("starting") \o <<F("closed")>>
SuccessScript(o) == <<Set("outputs", "running"), SC(Nil), Set("outputs", "finished"), CO(o)>>

NoH == [active |-> FALSE]
Init ==
  /\ g = G0 /\ produced = {} /\ waitingOutputs = {Out(id) : id \in OutputIds} /\ outputDone = FALSE
  /\ outCh = "empty" /\ errq = <<>> /\ lockHolder = <<"free">> /\ blocked = <<>> /\ hq = NoH /\ runCtx = FALSE /\ parentCancelled = FALSE
  /\ mainPc = "kickoff" /\ result = [kind |-> "none", id |-> Nil] /\ det = [s \in Steps |-> [k \in 0..Retries |-> 0]]
  /\ termTodo = {} /\ termCur = Nil /\ panicked = FALSE /\ fired = {}
  /\ stage = [s \in Steps |-> IF Kind(s) = "plugin" THEN "deploy" ELSE "enabling"] /\ state = [s \in Steps |-> "starting"]
  /\ prevStage = [s \in Steps |-> Nil]
  /\ pend = [s \in Steps |-> IF Kind(s) = "plugin" THEN <<SetSt("running"), SC0>> ELSE <<>>]
  /\ cont = [s \in Steps |-> IF Kind(s) = "plugin" THEN "tryD" ELSE "fAwaitE"]
  /\ slotD = [s \in Steps |-> 0] /\ slotE = [s \in Steps |-> "empty"] /\ slotR = [s \in Steps |-> 0]
  /\ stepCtx = [s \in Steps |-> FALSE] /\ closedFlag = [s \in Steps |-> FALSE] /\ conn = [s \in Steps |-> "none"]
  /\ exec = [s \in Steps |-> "none"] /\ execRes = [s \in Steps |-> Nil] /\ sigNil = [s \in Steps |-> FALSE]
  /\ sigQ = [s \in Steps |-> 0] /\ resQ = [s \in Steps |-> <<>>] /\ wg = [s \in Steps |-> 1] /\ execStarted = {}

----------------------------------------------------------------------------
\* notifySteps as a fold over the popped ready set (canonical order; see DESIGN for the map-order abstraction)
\* acc: [g, slotD, slotE, slotR, state, stepCtx, sigQ, errs, wo, od, oc, cancel]
\* (a loop step that was asked to close - its closed flag is set - drops whatever it is handed afterwards; a plugin
\* step accepts it and lets its cancelled context decide)
ProvideInto(acc, s, st) ==
  IF Kind(s) = "foreach" /\ closedFlag[s] THEN acc ELSE
  CASE st = "deploy"   -> [acc EXCEPT !.slotD[s] = 1,
                                      !.state[s] = IF acc.state[s] = "waiting_for_input" /\ stage[s] = "deploy" THEN "running" ELSE @]
    [] st = "enabling" -> [acc EXCEPT !.slotE[s] = EnabledVal(s),
                                      !.state[s] = IF acc.state[s] = "waiting_for_input" /\ stage[s] = "enabling" THEN "running" ELSE @]
    [] st = "starting" -> [acc EXCEPT !.slotR[s] = 1,
                                      !.state[s] = IF acc.state[s] = "waiting_for_input" /\ stage[s] = "starting" THEN "running" ELSE @]
    [] st = "execute" -> [acc EXCEPT !.slotR[s] = 1,
                                     !.state[s] = IF acc.state[s] = "waiting_for_input" /\ stage[s] = "execute" THEN "running" ELSE @]
    \* a true stop condition cancels the step (cancelStep): its context ends, and a running plugin is sent the signal
    [] st = "cancelled" -> IF StopVal(s) = "T"
                             THEN [acc EXCEPT !.stepCtx[s] = TRUE,
                                              !.sigQ[s] = IF stage[s] = "running" /\ ~sigNil[s] THEN 1 ELSE @]
                             ELSE acc
RECURSIVE NotifyFold(_, _)
NotifyFold(acc, todo) ==
  IF todo = <<>> THEN acc ELSE
  LET n == Head(todo)  failed == acc.g.st[n] = "U" IN
  IF failed THEN
      IF n[1] = "out" THEN
         LET wo2 == acc.wo \ {n} IN
         IF n \in acc.wo /\ wo2 = {} /\ ~acc.od THEN NotifyFold([acc EXCEPT !.wo = wo2, !.errs = Append(@, "nooutputs"), !.cancel = TRUE], Tail(todo))
                                ELSE NotifyFold([acc EXCEPT !.wo = wo2], Tail(todo))
      ELSE NotifyFold(acc, Tail(todo))
  ELSE IF n[1] = "st" /\ HasInput(n[2], n[3]) THEN NotifyFold([acc EXCEPT !.provs = Append(@, <<n[2], n[3]>>)], Tail(todo))
  ELSE IF n[1] = "out" THEN
      LET r == Resolve(acc.g, n, "R") IN
      IF acc.od THEN NotifyFold([acc EXCEPT !.g = r.g], Tail(todo))
                ELSE NotifyFold([acc EXCEPT !.g = r.g, !.od = TRUE, !.oc = n[2]], Tail(todo))
  ELSE NotifyFold(acc, Tail(todo))

Acc0(gg) == [g |-> [gg EXCEPT !.ready = {}], slotD |-> slotD, slotE |-> slotE, slotR |-> slotR, state |-> state, stepCtx |-> stepCtx,
             sigQ |-> sigQ, provs |-> <<>>,
             errs |-> <<>>, wo |-> waitingOutputs, od |-> outputDone, oc |-> Nil, cancel |-> FALSE]
\* hand every collected input to its step (atomic mode: all at once, canonical order)
RECURSIVE ProvideAll(_, _)
ProvideAll(acc, ps) == IF ps = <<>> THEN acc ELSE ProvideAll(ProvideInto(acc, Head(ps)[1], Head(ps)[2]), Tail(ps))
Notify(gg) == NotifyFold(Acc0(gg), Seqify(gg.ready))

\* The fallback detector. checkForDeadlocks(retries) is first called at the end of a handler, with the run lock held;
\* when it finds nothing starting or running, no ready node and no output, it spawns a re-check with one retry less.
DeadWith(st, gg, od) == (\A x \in Steps : st[x] \notin {"starting", "running"}) /\ gg.ready = {} /\ ~od
Bump(d, s, k) == [d EXCEPT ![s][k] = IF @ < DetCap THEN @ + 1 ELSE @]
ArmIfDead(d, s, st, gg, od) == IF s # Nil /\ DeadWith(st, gg, od) THEN Bump(d, s, Retries - 1) ELSE d
\* apply an accumulated handler result; who = goroutine identity holding L
ApplyAtomic(acc0, who, armDetFor) ==
  LET acc == ProvideAll(acc0, acc0.provs) IN
  /\ g' = acc.g /\ slotD' = acc.slotD /\ slotE' = acc.slotE /\ slotR' = acc.slotR /\ state' = acc.state
  /\ stepCtx' = acc.stepCtx /\ sigQ' = acc.sigQ
  /\ waitingOutputs' = acc.wo /\ outputDone' = acc.od
  /\ outCh' = IF acc.oc # Nil THEN acc.oc ELSE outCh
  /\ hq' = hq
  /\ LET room == ErrCap - Len(errq)
         n == Len(acc.errs) IN
     IF n <= room \/ ~BlockingErrors
       THEN /\ errq' = errq \o SubSeq(acc.errs, 1, IF n <= room THEN n ELSE room) /\ blocked' = blocked /\ lockHolder' = <<"free">>
            /\ runCtx' = (runCtx \/ acc.cancel)
       ELSE /\ errq' = errq \o SubSeq(acc.errs, 1, room)
            /\ blocked' = <<who, SubSeq(acc.errs, room + 1, n)>> /\ lockHolder' = who
            /\ runCtx' = (runCtx \/ (acc.cancel /\ room > 0))
  /\ det' = ArmIfDead(det, armDetFor, acc.state, acc.g, acc.od)
\* split mode: the private part (graph, waiting outputs) changes now; what leaves the run loop is queued in hq and the
\* lock stays with the handler until HEnd
ApplySplit(acc, who, armDetFor) ==
  /\ g' = acc.g /\ waitingOutputs' = acc.wo /\ outputDone' = acc.od
  /\ hq' = [active |-> TRUE, who |-> who, provs |-> {acc.provs[i] : i \in DOMAIN acc.provs}, errs |-> acc.errs, oc |-> acc.oc,
            cancel |-> acc.cancel, arm |-> armDetFor, checked |-> FALSE, k |-> Retries, seen |-> [x \in Steps |-> "unread"]]
  /\ lockHolder' = who
  /\ UNCHANGED <<slotD, slotE, slotR, state, stepCtx, sigQ, outCh, errq, blocked, runCtx, det>>
Apply(acc, who, armDetFor) == IF SplitHandlers THEN ApplySplit(acc, who, armDetFor) ELSE ApplyAtomic(acc, who, armDetFor)

U0(v) == UNCHANGED v
Unblock ==   \* a blocked sender proceeds when the channel has room
  /\ blocked # <<>> /\ Len(errq) < ErrCap
  /\ errq' = Append(errq, Head(blocked[2]))
  /\ IF Len(blocked[2]) = 1 THEN blocked' = <<>> /\ lockHolder' = <<"free">> ELSE blocked' = <<blocked[1], Tail(blocked[2])>> /\ U0(lockHolder)
  /\ runCtx' = TRUE /\ hq' = hq
  /\ UNCHANGED <<g, produced, waitingOutputs, outputDone, outCh, parentCancelled, mainPc, result, det, termTodo, termCur, panicked, fired>>
  /\ UNCHANGED sv

----------------------------------------------------------------------------
\* A step that has left its lifecycle (cont exit/done: it failed, was closed, or delivered its result) is no pending
\* work, whatever is still buffered for it or still running on its behalf (an abandoned plugin after a forced close).
Live(s) == cont[s] \notin {"exit", "done"}
Quiescent == /\ \A s \in Steps : /\ pend[s] = <<>>
                                 /\ Live(s) => /\ slotD[s] = 0 /\ slotE[s] = "empty" /\ slotR[s] = 0
                                                /\ exec[s] # "running" /\ resQ[s] = <<>>
                                                /\ cont[s] \in {"awaitD", "awaitE", "awaitR", "fAwaitE", "fAwaitX"}
             /\ g.ready = {}
\* some step has a notification (or the state update that precedes it) queued: the window of DESIGN 14.2
InFlight == \E s \in Steps : pend[s] # <<>>
\* split mode: the handler that holds the run lock hands over what it computed, one channel operation at a time
HRest == <<g, produced, waitingOutputs, outputDone, lockHolder, blocked, parentCancelled, mainPc, result, termTodo, termCur, panicked, fired>>
HStepRest == <<stage, prevStage, pend, cont, stepCtx, closedFlag, conn, exec, execRes, sigNil, sigQ, resQ, wg, execStarted>>
HProvide(s, st) ==
  /\ hq.active /\ <<s, st>> \in hq.provs
  /\ LET acc == ProvideInto([slotD |-> slotD, slotE |-> slotE, slotR |-> slotR, state |-> state, stepCtx |-> stepCtx, sigQ |-> sigQ], s, st) IN
       slotD' = acc.slotD /\ slotE' = acc.slotE /\ slotR' = acc.slotR /\ state' = acc.state /\ stepCtx' = acc.stepCtx /\ sigQ' = acc.sigQ
  /\ hq' = [hq EXCEPT !.provs = @ \ {<<s, st>>}]
  /\ UNCHANGED <<outCh, errq, runCtx, det>> /\ UNCHANGED HRest
  /\ UNCHANGED <<stage, prevStage, pend, cont, closedFlag, conn, exec, execRes, sigNil, resQ, wg, execStarted>>
HErr ==
  /\ hq.active /\ hq.errs # <<>>
  /\ errq' = IF Len(errq) < ErrCap THEN Append(errq, Head(hq.errs)) ELSE errq      \* (the repaired engine drops it when full)
  /\ Len(errq) < ErrCap \/ ~BlockingErrors
  /\ hq' = [hq EXCEPT !.errs = Tail(@)]
  /\ runCtx' = (runCtx \/ (hq.cancel /\ Len(hq.errs) = 1))
  /\ UNCHANGED <<slotD, slotE, slotR, state, outCh, det>> /\ UNCHANGED HRest /\ UNCHANGED HStepRest
HOut ==
  /\ hq.active /\ hq.oc # Nil
  /\ outCh' = hq.oc /\ hq' = [hq EXCEPT !.oc = Nil]
  /\ UNCHANGED <<slotD, slotE, slotR, state, errq, runCtx, det>> /\ UNCHANGED HRest /\ UNCHANGED HStepRest
\* A deadlock check (the first one at the end of a handler, re-checks in goroutines of their own - DetWake), always under
\* the run lock: countStates reads every step's state, one step lock at a time (HRead: NOT one atomic snapshot), then
\* the verdict is taken from what was read (HCheck): nothing starting or running, no ready node, no output.  A dead
\* verdict with retries left spawns a re-check (which may see the cancelled context and leave before the handler has
\* returned); with no retries left it reports "no steps" and cancels the run.
Checking == hq.active /\ hq.provs = {} /\ hq.errs = <<>> /\ hq.oc = Nil /\ hq.arm # Nil /\ ~hq.checked
HRead(x) ==
  /\ Checking /\ hq.seen[x] = "unread"
  /\ hq' = [hq EXCEPT !.seen[x] = state[x]]
  /\ UNCHANGED <<slotD, slotE, slotR, state, outCh, errq, runCtx, det>> /\ UNCHANGED HRest /\ UNCHANGED HStepRest
HCheckWith(endNow) ==
  /\ Checking /\ \A x \in Steps : hq.seen[x] # "unread"
  /\ LET dead == DeadWith(hq.seen, g, outputDone) IN
       IF ~dead THEN UNCHANGED <<det, errq, runCtx, fired>>
       ELSE IF hq.k > 0 THEN det' = Bump(det, hq.arm, hq.k - 1) /\ UNCHANGED <<errq, runCtx, fired>>
       ELSE /\ fired' = fired \cup {IF Quiescent THEN "quiescent" ELSE IF InFlight THEN "inflight" ELSE "busy"}
            /\ errq' = IF Len(errq) < ErrCap THEN Append(errq, "nosteps") ELSE errq
            /\ runCtx' = TRUE /\ UNCHANGED det
  /\ hq' = IF endNow THEN NoH ELSE [hq EXCEPT !.checked = TRUE]
  /\ lockHolder' = IF endNow THEN <<"free">> ELSE lockHolder
  /\ UNCHANGED <<slotD, slotE, slotR, state, outCh>>
  /\ UNCHANGED <<g, produced, waitingOutputs, outputDone, blocked, parentCancelled, mainPc, result, termTodo, termCur, panicked>>
  /\ UNCHANGED HStepRest
HCheck == HCheckWith(FALSE)
\* a re-check goroutine wakes up and takes the run lock
DetWake(s, k) ==
  /\ SplitHandlers /\ det[s][k] > 0 /\ lockHolder = <<"free">>
  /\ det' = [det EXCEPT ![s][k] = @ - 1]
  /\ hq' = [active |-> TRUE, who |-> <<"det", s>>, provs |-> {}, errs |-> <<>>, oc |-> Nil, cancel |-> FALSE, arm |-> s, checked |-> FALSE,
            k |-> k, seen |-> [x \in Steps |-> "unread"]]
  /\ lockHolder' = <<"det", s>>
  /\ UNCHANGED <<slotD, slotE, slotR, state, outCh, errq, runCtx>>
  /\ UNCHANGED <<g, produced, waitingOutputs, outputDone, blocked, parentCancelled, mainPc, result, termTodo, termCur, panicked, fired>>
  /\ UNCHANGED HStepRest
HEnd ==
  /\ hq.active /\ hq.provs = {} /\ hq.errs = <<>> /\ hq.oc = Nil /\ (hq.arm = Nil \/ hq.checked)
  /\ det' = det
  /\ runCtx' = (runCtx \/ hq.cancel)
  /\ lockHolder' = <<"free">> /\ hq' = NoH
  /\ UNCHANGED <<slotD, slotE, slotR, state, outCh, errq>>
  /\ UNCHANGED <<g, produced, waitingOutputs, outputDone, blocked, parentCancelled, mainPc, result, termTodo, termCur, panicked, fired>>
  /\ UNCHANGED HStepRest
HNext == HErr \/ HOut \/ HCheck \/ HEnd \/ (\E s \in Steps, st \in Stages : HProvide(s, st)) \/ (\E x \in Steps : HRead(x))

----------------------------------------------------------------------------
\* step goroutine: micro-ops. Handlers need L.
OthersOut(s, st, o) == {So(s, st, x) : x \in Declared(s, st) \ {o}}
RECURSIVE MarkAllU(_, _)
MarkAllU(gg, ns) == IF ns = <<>> THEN [g |-> gg, err |-> FALSE]
                    ELSE LET r == Resolve(gg, Head(ns), "U") IN IF r.err THEN r ELSE MarkAllU(r.g, Tail(ns))

HandlerSCCO(s, prev, out, isCO) ==
  LET r1 == Resolve(g, St(s, prev), "R") IN
  IF r1.err THEN [acc |-> [Acc0(g) EXCEPT !.errs = <<"resolvefail">>, !.cancel = TRUE], prod |-> produced, panic |-> FALSE]
  ELSE IF out = Nil THEN [acc |-> Notify(r1.g), prod |-> produced, panic |-> FALSE]
  ELSE LET r2 == Resolve(r1.g, So(s, prev, out), "R") IN
       IF r2.err THEN [acc |-> [Acc0(r1.g) EXCEPT !.errs = <<"resolvefail">>, !.cancel = TRUE], prod |-> produced, panic |-> FALSE]
       ELSE LET r3 == MarkAllU(r2.g, Seqify(OthersOut(s, prev, out))) IN
            IF r3.err THEN [acc |-> Acc0(r2.g), prod |-> produced, panic |-> TRUE]
            ELSE [acc |-> Notify(r3.g), prod |-> produced \cup {So(s, prev, out)}, panic |-> FALSE]
HandlerF(s, st) ==
  LET r == MarkAllU(g, Seqify({So(s, st, o) : o \in Declared(s, st)}) \o <<St(s, st)>>) IN
  IF r.err THEN [acc |-> Acc0(g), prod |-> produced, panic |-> TRUE]
  ELSE [acc |-> Notify(r.g), prod |-> produced, panic |-> FALSE]

StepVarsNoPend == <<cont, stepCtx, closedFlag, conn, exec, execRes, sigNil, sigQ, resQ, wg, execStarted>>
StepVarsHandler == <<cont, closedFlag, conn, exec, execRes, sigNil, resQ, wg, execStarted>>     \* (a handler may stop steps: Apply sets stepCtx, sigQ)
StepMicro(s) ==
  /\ pend[s] # <<>>
  /\ LET m == Head(pend[s]) IN
     /\ pend' = [pend EXCEPT ![s] = Tail(@)]
     /\ CASE m.op = "Set" ->
               /\ prevStage' = [prevStage EXCEPT ![s] = stage[s]] /\ stage' = [stage EXCEPT ![s] = m.stage]
               /\ state' = [state EXCEPT ![s] = m.state]
               /\ UNCHANGED <<rl, slotD, slotE, slotR>> /\ UNCHANGED StepVarsNoPend
          [] m.op = "SetFF" ->
               /\ prevStage' = [prevStage EXCEPT ![s] = stage[s]] /\ stage' = [stage EXCEPT ![s] = m.stage]
               /\ state' = [state EXCEPT ![s] = m.state]
               /\ UNCHANGED <<rl, slotD, slotE, slotR>> /\ UNCHANGED StepVarsNoPend
          [] m.op = "SetA" ->     \* stage entry whose state is decided under the step lock from the input-available flag
               /\ prevStage' = [prevStage EXCEPT ![s] = stage[s]] /\ stage' = [stage EXCEPT ![s] = m.stage]
               /\ state' = [state EXCEPT ![s] = IF slotE[s] # "empty" THEN "running" ELSE "waiting_for_input"]
               /\ UNCHANGED <<rl, slotD, slotE, slotR>> /\ UNCHANGED StepVarsNoPend
          [] m.op = "SetW" ->     \* deploy stage, after the non-blocking receive found nothing
               /\ state' = [state EXCEPT ![s] = IF DeployWaitChecked /\ slotD[s] = 1 THEN "running" ELSE "waiting_for_input"]
               /\ UNCHANGED <<rl, prevStage, stage, slotD, slotE, slotR>> /\ UNCHANGED StepVarsNoPend
          [] m.op = "SetSt" ->
               /\ state' = [state EXCEPT ![s] = m.state] /\ UNCHANGED <<rl, prevStage, stage, slotD, slotE, slotR>> /\ UNCHANGED StepVarsNoPend
          [] m.op = "SC0" ->
               /\ lockHolder = <<"free">> /\ UNCHANGED <<rl, prevStage, stage, state, slotD, slotE, slotR>> /\ UNCHANGED StepVarsNoPend
          [] m.op \in {"SC", "CO"} ->
               /\ lockHolder = <<"free">>
               /\ LET prev == IF m.op = "CO" THEN stage[s] ELSE prevStage[s]
                      h == HandlerSCCO(s, prev, m.out, m.op = "CO") IN
                  /\ produced' = h.prod /\ panicked' = (panicked \/ h.panic)
                  /\ Apply(h.acc, <<"step", s>>, s)
               /\ UNCHANGED <<parentCancelled, mainPc, result, termTodo, termCur, fired, prevStage, stage>> /\ UNCHANGED StepVarsHandler
          [] m.op = "F" ->
               /\ lockHolder = <<"free">>
               /\ LET st == IF m.stage = "$prev" THEN prevStage[s] ELSE m.stage
                      h == HandlerF(s, st) IN
                  /\ produced' = h.prod /\ panicked' = (panicked \/ h.panic)
                  /\ Apply(h.acc, <<"step", s>>, Nil)
               /\ UNCHANGED <<parentCancelled, mainPc, result, termTodo, termCur, fired, prevStage, stage>> /\ UNCHANGED StepVarsHandler

Go(s, p, c) == pend' = [pend EXCEPT ![s] = p] /\ cont' = [cont EXCEPT ![s] = c]
Idle(s) == pend[s] = <<>>
TryD(s) == /\ Idle(s) /\ cont[s] = "tryD"
           /\ IF slotD[s] = 1 THEN slotD' = [slotD EXCEPT ![s] = 0] /\ Go(s, <<SetSt("running")>>, "deploy")
                              ELSE U0(slotD) /\ Go(s, <<[op |-> "SetW"]>>, "awaitD")
           /\ UNCHANGED <<rl, stage, state, prevStage, slotE, slotR, stepCtx, closedFlag, conn, exec, execRes, sigNil, sigQ, resQ, wg, execStarted>>
AwaitD(s) == /\ Idle(s) /\ cont[s] = "awaitD"
             /\ \/ slotD[s] = 1 /\ slotD' = [slotD EXCEPT ![s] = 0] /\ Go(s, <<SetSt("running")>>, "deploy")
                \/ stepCtx[s] /\ U0(slotD) /\ Go(s, ClosedEarly("enabling", TRUE), "exit")
             /\ UNCHANGED <<rl, stage, state, prevStage, slotE, slotR, stepCtx, closedFlag, conn, exec, execRes, sigNil, sigQ, resQ, wg, execStarted>>
Deploy(s) == /\ Idle(s) /\ cont[s] = "deploy"
             /\ \/ DeployMayFail(s) /\ Go(s, DeployFailedScript, "exit") /\ U0(conn)
                \/ conn' = [conn EXCEPT ![s] = "pending"] /\ Go(s, <<>>, "postDeploy")
             /\ UNCHANGED <<rl, stage, state, prevStage, slotD, slotE, slotR, stepCtx, closedFlag, exec, execRes, sigNil, sigQ, resQ, wg, execStarted>>
PostDeploy(s) == /\ Idle(s) /\ cont[s] = "postDeploy"
                 /\ IF stepCtx[s] THEN conn' = [conn EXCEPT ![s] = "closed"] /\ Go(s, ClosedEarly("enabling", FALSE), "exit")
                    ELSE conn' = [conn EXCEPT ![s] = "live"] /\ Go(s, <<[op |-> "SetA", stage |-> "enabling"], SC(Nil)>>, "awaitE")
                 /\ UNCHANGED <<rl, stage, state, prevStage, slotD, slotE, slotR, stepCtx, closedFlag, exec, execRes, sigNil, sigQ, resQ, wg, execStarted>>
\* Only for trace validation (not part of Next): the recorder announces a cancellation just BEFORE it takes effect, so a
\* step that looks at its context right after its deployment may still see it alive although the announcement is already
\* in the trace; it then goes on to the enabling stage, where it meets the cancelled context.
PostDeployLive(s) == /\ Idle(s) /\ cont[s] = "postDeploy" /\ stepCtx[s]
                     /\ conn' = [conn EXCEPT ![s] = "live"] /\ Go(s, <<[op |-> "SetA", stage |-> "enabling"], SC(Nil)>>, "awaitE")
                     /\ UNCHANGED <<rl, stage, state, prevStage, slotD, slotE, slotR, stepCtx, closedFlag, exec, execRes, sigNil, sigQ, resQ, wg, execStarted>>
AwaitE(s) == /\ Idle(s) /\ cont[s] = "awaitE"
             /\ \/ slotE[s] = "T" /\ slotE' = [slotE EXCEPT ![s] = "empty"] /\ Go(s, <<F("disabled")>>, "tryR")
                \/ slotE[s] = "F" /\ slotE' = [slotE EXCEPT ![s] = "empty"] /\ Go(s, DisabledScript, "exit")
                \/ stepCtx[s] /\ U0(slotE) /\ Go(s, ClosedEarly("starting", TRUE), "exit")
             /\ UNCHANGED <<rl, stage, state, prevStage, slotD, slotR, stepCtx, closedFlag, conn, exec, execRes, sigNil, sigQ, resQ, wg, execStarted>>
TryR(s) == /\ Idle(s) /\ cont[s] = "tryR"
           /\ IF slotR[s] = 1 THEN slotR' = [slotR EXCEPT ![s] = 0] /\ Go(s, <<Set("starting", "running"), SC("resolved")>>, "readSchema")
              ELSE U0(slotR) /\ Go(s, <<Set("starting", "waiting_for_input"), SC("resolved")>>, "awaitR")
           /\ UNCHANGED <<rl, stage, state, prevStage, slotD, slotE, stepCtx, closedFlag, conn, exec, execRes, sigNil, sigQ, resQ, wg, execStarted>>
AwaitR(s) == /\ Idle(s) /\ cont[s] = "awaitR"
             /\ \/ slotR[s] = 1 /\ slotR' = [slotR EXCEPT ![s] = 0] /\ Go(s, <<SetSt("running")>>, "readSchema")
                \/ stepCtx[s] /\ U0(slotR) /\ Go(s, ClosedEarly("running", TRUE), "exit")
             /\ UNCHANGED <<rl, stage, state, prevStage, slotD, slotE, stepCtx, closedFlag, conn, exec, execRes, sigNil, sigQ, resQ, wg, execStarted>>
\* after the run input was received the step looks at its context once more (a stop condition or a close request that
\* fired meanwhile wins: the plugin is not started); otherwise the schema is read and the execution goroutine spawned
ReadSchema(s) == /\ Idle(s) /\ cont[s] = "readSchema"
                 /\ \/ /\ wg' = [wg EXCEPT ![s] = @ + 1] /\ exec' = [exec EXCEPT ![s] = "running"]
                       /\ execStarted' = execStarted \cup {s}
                       /\ Go(s, <<Set("running", "running"), SC("started")>>, "awaitRes")
                    \/ /\ stepCtx[s] /\ Go(s, ClosedEarly("running", TRUE), "exit")
                       /\ UNCHANGED <<wg, exec, execStarted>>
                    \/ /\ StartMayFail(s) /\ Go(s, StartFailedScript, "exit")
                       /\ UNCHANGED <<wg, exec, execStarted>>
                 /\ UNCHANGED <<rl, stage, state, prevStage, slotD, slotE, slotR, stepCtx, closedFlag, conn, execRes, sigNil, sigQ, resQ>>
TakeResult(s) == /\ resQ[s] # <<>> /\ resQ' = [resQ EXCEPT ![s] = Tail(@)]
                 /\ IF Head(resQ[s]) = "err" THEN Go(s, RunFailedScript, "exit") ELSE Go(s, SuccessScript(Head(resQ[s])), "exit")
AwaitRes(s) == /\ Idle(s) /\ cont[s] = "awaitRes"
               /\ \/ TakeResult(s)
                  \/ stepCtx[s] /\ U0(resQ) /\ Go(s, <<>>, "cancelSend")
               /\ UNCHANGED <<rl, stage, state, prevStage, slotD, slotE, slotR, stepCtx, closedFlag, conn, exec, execRes, sigNil, sigQ, wg, execStarted>>
CancelSend(s) == /\ Idle(s) /\ cont[s] = "cancelSend"
                 /\ sigQ' = [sigQ EXCEPT ![s] = IF stage[s] = "running" /\ ~sigNil[s] THEN 1 ELSE @]
                 /\ Go(s, <<>>, "awaitResCancel")
                 /\ UNCHANGED <<rl, stage, state, prevStage, slotD, slotE, slotR, stepCtx, closedFlag, conn, exec, execRes, sigNil, resQ, wg, execStarted>>
AwaitResCancel(s) == /\ Idle(s) /\ cont[s] = "awaitResCancel"
                     /\ \/ TakeResult(s) /\ U0(closedFlag)
                        \/ U0(resQ) /\ closedFlag' = [closedFlag EXCEPT ![s] = TRUE] /\ Go(s, RunFailedScript, "exit")
                     /\ UNCHANGED <<rl, stage, state, prevStage, slotD, slotE, slotR, stepCtx, conn, exec, execRes, sigNil, sigQ, wg, execStarted>>
Exit(s) == /\ Idle(s) /\ cont[s] = "exit"
           /\ conn' = [conn EXCEPT ![s] = IF @ = "live" THEN "closed" ELSE @]
           /\ stepCtx' = [stepCtx EXCEPT ![s] = TRUE] /\ wg' = [wg EXCEPT ![s] = @ - 1] /\ Go(s, <<>>, "done")
           /\ UNCHANGED <<rl, stage, state, prevStage, slotD, slotE, slotR, closedFlag, exec, execRes, sigNil, sigQ, resQ, execStarted>>

\* ---- loop step (foreach provider) ---------------------------------------------------------------------------------
FailuresF(from) == CASE from = "enabling" -> <<F("enabling"), F("disabled"), F("execute"), F("outputs")>>
                     [] from = "execute" -> <<F("execute"), F("outputs")>>
ClosedEarlyF(from, priorFailed) ==
  (IF priorFailed THEN <<FromFailed("closed", "running"), F("$prev")>> ELSE <<Set("closed", "running"), SC(Nil)>>)
  \o <<Set("closed", "finished"), CO("result")>> \o FailuresF(from)
DisabledScriptF == <<Set("disabled", "running"), SC("resolved"), Set("disabled", "finished"), CO("output")>> \o FailuresF("execute") \o <<F("closed")>>
LoopSuccessScript == <<Set("outputs", "running"), SC(Nil), F("failed"), SetSt("finished"), CO("success")>>
LoopFailedScript == <<Set("failed", "running"), SC(Nil), F("outputs"), SetSt("finished"), CO("error")>>
FStepRest == <<rl, stage, state, prevStage, slotD, stepCtx, closedFlag, conn, exec, execRes, sigNil, sigQ, resQ, wg, execStarted>>
FAwaitE(s) == /\ Idle(s) /\ cont[s] = "fAwaitE"
              /\ \/ slotE[s] = "T" /\ slotE' = [slotE EXCEPT ![s] = "empty"] /\ Go(s, <<F("disabled")>>, "fTryX")
                 \/ slotE[s] = "F" /\ slotE' = [slotE EXCEPT ![s] = "empty"] /\ Go(s, DisabledScriptF, "exit")
                 \/ stepCtx[s] /\ U0(slotE) /\ Go(s, ClosedEarlyF("execute", TRUE), "exit")
              /\ UNCHANGED FStepRest /\ U0(slotR)
\* looks whether the items are already there, enters the execute stage, tells the run loop (twice: stage change with the
\* enabling output, then a bare stage change)
FTryX(s) == /\ Idle(s) /\ cont[s] = "fTryX"
            /\ Go(s, <<Set("execute", IF slotR[s] = 1 THEN "running" ELSE "waiting_for_input"), SC("resolved"), SC0>>, "fAwaitX")
            /\ UNCHANGED FStepRest /\ UNCHANGED <<slotE, slotR>>
\* waits for the items; a loop closed while it waits leaves without a word (a known deviation kept visible in ForeachStep.tla)
FAwaitX(s) == /\ Idle(s) /\ cont[s] = "fAwaitX"
              /\ \/ slotR[s] = 1 /\ slotR' = [slotR EXCEPT ![s] = 0] /\ Go(s, <<>>, "fRun")
                 \/ stepCtx[s] /\ U0(slotR) /\ Go(s, <<>>, "exit")
              /\ UNCHANGED FStepRest /\ U0(slotE)
\* all item runs have returned (or were aborted): the loop reports success, or failure if an item failed or never ran
FRun(s) == /\ Idle(s) /\ cont[s] = "fRun"
           /\ \/ Go(s, LoopSuccessScript, "exit") \/ Go(s, LoopFailedScript, "exit")
           /\ UNCHANGED FStepRest /\ UNCHANGED <<slotE, slotR>>

PluginReturn(s) == /\ exec[s] = "running"
                   /\ \/ \E r \in Beh(s) \ {"hang"} : execRes' = [execRes EXCEPT ![s] = r]
                      \/ sigQ[s] > 0 /\ execRes' = [execRes EXCEPT ![s] = "cancelled_early"]
                      \/ conn[s] = "closed" /\ execRes' = [execRes EXCEPT ![s] = "err"]
                   /\ exec' = [exec EXCEPT ![s] = "returned"]
                   /\ UNCHANGED <<rl, stage, state, prevStage, pend, cont, slotD, slotE, slotR, stepCtx, closedFlag, conn, sigNil, sigQ, resQ, wg, execStarted>>
ExecPublish(s) == /\ exec[s] = "returned" /\ sigNil' = [sigNil EXCEPT ![s] = TRUE]
                  /\ resQ' = [resQ EXCEPT ![s] = Append(@, execRes[s])] /\ exec' = [exec EXCEPT ![s] = "published"]
                  /\ UNCHANGED <<rl, stage, state, prevStage, pend, cont, slotD, slotE, slotR, stepCtx, closedFlag, conn, execRes, sigQ, wg, execStarted>>
ExecDone(s) == /\ exec[s] = "published" /\ wg' = [wg EXCEPT ![s] = @ - 1] /\ exec' = [exec EXCEPT ![s] = "done"]
               /\ UNCHANGED <<rl, stage, state, prevStage, pend, cont, slotD, slotE, slotR, stepCtx, closedFlag, conn, execRes, sigNil, sigQ, resQ, execStarted>>

----------------------------------------------------------------------------
\* detector: det[s][k] = number of armed checks with k retries left, registered in step s's wait group
DetectorFire(s, k) ==
  /\ ~SplitHandlers /\ det[s][k] > 0 /\ lockHolder = <<"free">>
  /\ LET dead == DeadWith(state, g, outputDone) IN
     IF ~dead THEN /\ det' = [det EXCEPT ![s][k] = @ - 1]
                   /\ UNCHANGED <<errq, blocked, hq, lockHolder, runCtx, fired>>
     ELSE IF k > 0 THEN /\ det' = Bump([det EXCEPT ![s][k] = @ - 1], s, k - 1)
                        /\ UNCHANGED <<errq, blocked, hq, lockHolder, runCtx, fired>>
     ELSE /\ det' = [det EXCEPT ![s][k] = @ - 1]
          /\ fired' = fired \cup {IF Quiescent THEN "quiescent" ELSE IF InFlight THEN "inflight" ELSE "busy"}
          /\ IF Len(errq) < ErrCap THEN errq' = Append(errq, "nosteps") /\ runCtx' = TRUE /\ UNCHANGED <<blocked, hq, lockHolder>>
             ELSE IF ~BlockingErrors THEN runCtx' = TRUE /\ UNCHANGED <<errq, blocked, hq, lockHolder>>
             ELSE blocked' = <<<<"det", s>>, <<"nosteps">>>> /\ lockHolder' = <<"det", s>> /\ UNCHANGED <<errq, runCtx, hq>>
  /\ UNCHANGED <<g, produced, waitingOutputs, outputDone, outCh, parentCancelled, mainPc, result, termTodo, termCur, panicked>>
  /\ UNCHANGED sv
DetectorCtxExit(s, k) ==
  /\ det[s][k] > 0 /\ runCtx /\ det' = [det EXCEPT ![s][k] = @ - 1]
  /\ UNCHANGED <<g, produced, waitingOutputs, outputDone, outCh, errq, lockHolder, blocked, hq, runCtx, parentCancelled, mainPc, result, termTodo, termCur, panicked, fired>>
  /\ UNCHANGED sv
DetLive(s) == \E k \in 0..Retries : det[s][k] > 0

----------------------------------------------------------------------------
\* main goroutine
MainKickoff ==
  /\ mainPc = "kickoff" /\ lockHolder = <<"free">>
  /\ LET r == Resolve(PushStarting(g), InNode, "R") IN Apply(Notify(r.g), <<"main">>, Nil)
  /\ mainPc' = "select"
  /\ UNCHANGED <<produced, parentCancelled, result, termTodo, termCur, panicked, fired>>
  /\ UNCHANGED <<stage, prevStage, pend, cont, closedFlag, conn, exec, execRes, sigNil, resQ, wg, execStarted>>
Drain == errq' = <<>>
MainSelectOutput ==
  /\ mainPc = "select" /\ outCh \notin {"empty", "taken"}
  /\ result' = [kind |-> "output", id |-> outCh] /\ outCh' = "taken" /\ Drain /\ mainPc' = "terminate"
  /\ termTodo' = Steps
  /\ UNCHANGED <<g, produced, waitingOutputs, outputDone, lockHolder, blocked, hq, runCtx, parentCancelled, det, termCur, panicked, fired>>
  /\ UNCHANGED sv
MainSelectCtx ==
  /\ mainPc = "select" /\ runCtx
  /\ IF errq # <<>> THEN result' = [kind |-> "error", id |-> Head(errq)] /\ mainPc' = "terminate" /\ termTodo' = Steps
     ELSE result' = result /\ mainPc' = "grace" /\ termTodo' = termTodo
  /\ Drain
  /\ UNCHANGED <<g, produced, waitingOutputs, outputDone, outCh, lockHolder, blocked, hq, runCtx, parentCancelled, det, termCur, panicked, fired>>
  /\ UNCHANGED sv
CallerCancel ==
  /\ AllowCancel /\ ~parentCancelled /\ mainPc \in {"kickoff", "select"} /\ parentCancelled' = TRUE /\ runCtx' = TRUE
  /\ UNCHANGED <<g, produced, waitingOutputs, outputDone, outCh, errq, lockHolder, blocked, hq, mainPc, result, det, termTodo, termCur, panicked, fired>>
  /\ UNCHANGED sv
\* grace: terminateAllSteps runs concurrently (modelled: all steps get ForceClose'd in some order) while waiting
MainGrace ==
  /\ mainPc = "grace"
  /\ \/ outCh \notin {"empty", "taken"} /\ result' = [kind |-> "output", id |-> outCh] /\ outCh' = "taken" /\ Drain
     \/ errq # <<>> /\ result' = [kind |-> "error", id |-> Head(errq)] /\ Drain /\ U0(outCh)
     \/ result' = [kind |-> "error", id |-> "aborted"] /\ Drain /\ U0(outCh)     \* 5 s timer
  /\ mainPc' = "terminate" /\ termTodo' = Steps
  /\ UNCHANGED <<g, produced, waitingOutputs, outputDone, lockHolder, blocked, hq, runCtx, parentCancelled, det, termCur, panicked, fired>>
  /\ UNCHANGED sv
\* Closing a step (ForceClose / Close) is two steps: the closed flag is swapped to true, then the step's context is
\* cancelled.  During the grace period a spawned terminator goes through all steps; afterwards the deferred one does.
GraceMark(s) ==
  /\ mainPc = "grace" /\ ~closedFlag[s]
  /\ closedFlag' = [closedFlag EXCEPT ![s] = TRUE]
  /\ UNCHANGED rl
  /\ UNCHANGED <<stage, state, prevStage, pend, cont, slotD, slotE, slotR, stepCtx, conn, exec, execRes, sigNil, sigQ, resQ, wg, execStarted>>
CloseCancel(s) ==
  /\ closedFlag[s] /\ ~stepCtx[s]
  /\ stepCtx' = [stepCtx EXCEPT ![s] = TRUE]
  /\ UNCHANGED rl
  /\ UNCHANGED <<stage, state, prevStage, pend, cont, slotD, slotE, slotR, closedFlag, conn, exec, execRes, sigNil, sigQ, resQ, wg, execStarted>>
\* terminateAllSteps: ForceClose of one step after the other - the call, the closed flag, the cancellation, the wait
TermPick(s) ==
  /\ mainPc = "terminate" /\ termCur = Nil /\ s \in termTodo
  /\ termCur' = s /\ termTodo' = termTodo \ {s}
  /\ UNCHANGED <<g, produced, waitingOutputs, outputDone, outCh, errq, lockHolder, blocked, hq, runCtx, parentCancelled, mainPc, result, det, panicked, fired>>
  /\ UNCHANGED sv
TermMark(s) ==
  /\ mainPc = "terminate" /\ termCur = s /\ ~closedFlag[s]
  /\ closedFlag' = [closedFlag EXCEPT ![s] = TRUE]
  /\ UNCHANGED rl
  /\ UNCHANGED <<stage, state, prevStage, pend, cont, slotD, slotE, slotR, stepCtx, conn, exec, execRes, sigNil, sigQ, resQ, wg, execStarted>>
TermWait ==
  /\ mainPc = "terminate" /\ termCur # Nil /\ closedFlag[termCur] /\ stepCtx[termCur] /\ wg[termCur] = 0 /\ ~DetLive(termCur)
  /\ termCur' = Nil
  /\ UNCHANGED <<g, produced, waitingOutputs, outputDone, outCh, errq, lockHolder, blocked, hq, runCtx, parentCancelled, mainPc, result, det, termTodo, panicked, fired>>
  /\ UNCHANGED sv
MainReturn ==
  /\ mainPc = "terminate" /\ termCur = Nil /\ termTodo = {}
  /\ mainPc' = "returned" /\ runCtx' = TRUE
  /\ UNCHANGED <<g, produced, waitingOutputs, outputDone, outCh, errq, lockHolder, blocked, hq, parentCancelled, result, det, termTodo, termCur, panicked, fired>>
  /\ UNCHANGED sv

\* a goroutine that is inside a handler (split mode) does nothing else until the handler has ended
Busy(who) == hq.active /\ hq.who = who
StepNext(s) == (~Busy(<<"step", s>>) /\ (StepMicro(s) \/ TryD(s) \/ AwaitD(s) \/ Deploy(s) \/ PostDeploy(s) \/ AwaitE(s) \/ TryR(s) \/ AwaitR(s)
                                         \/ ReadSchema(s) \/ AwaitRes(s) \/ CancelSend(s) \/ AwaitResCancel(s) \/ Exit(s)
                                         \/ FAwaitE(s) \/ FTryX(s) \/ FAwaitX(s) \/ FRun(s)))
               \/ PluginReturn(s) \/ ExecPublish(s) \/ ExecDone(s)
DetNext == \E s \in Steps, k \in 0..Retries : DetectorFire(s, k) \/ DetWake(s, k) \/ DetectorCtxExit(s, k)
MainNext == (~Busy(<<"main">>) /\ (MainKickoff \/ MainSelectOutput \/ MainSelectCtx \/ MainGrace \/ MainReturn \/ TermWait
                                      \/ \E s \in Steps : TermPick(s) \/ TermMark(s)))
            \/ \E s \in Steps : GraceMark(s) \/ CloseCancel(s)
Next == (\E s \in Steps : StepNext(s)) \/ DetNext \/ MainNext \/ Unblock \/ CallerCancel \/ HNext
Spec == Init /\ [][Next]_vars
FairSpec == Spec /\ WF_vars(MainNext) /\ WF_vars(DetNext) /\ WF_vars(Unblock) /\ WF_vars(HNext) /\ \A s \in Steps : WF_vars(StepNext(s))

----------------------------------------------------------------------------
NoPanic == ~panicked
NoBlockedHolder == ~(blocked # <<>> /\ Len(errq) >= ErrCap /\ mainPc \in {"terminate", "returned"})
\* a step that shows waiting_for_input has no unread input for the stage it is in
\* (a step that left through its cancelled context - cont exit/done - no longer reads; its closing state updates are queued)
StateSlotTruthful == \A s \in Steps : (state[s] = "waiting_for_input" /\ cont[s] \notin {"exit", "done"}) =>
                        /\ (stage[s] = "deploy" => slotD[s] = 0 \/ (~DeployWaitChecked /\ cont[s] = "awaitD"))   \* before the repair: a transient
                        /\ (stage[s] = "enabling" => slotE[s] = "empty")
                        /\ (stage[s] = "starting" => slotR[s] = 0)
                        /\ (stage[s] = "execute" => slotR[s] = 0)
DetectorSound == fired \subseteq {"quiescent"}              \* violated: the known in-flight window
DetectorSoundModuloInFlight == "busy" \notin fired    \* holds: the detector never fires over unread input or a running plugin
Returned == mainPc = "returned"
Terminates == <>Returned
AllClosedAtReturn == Returned => \A s \in Steps : conn[s] \in {"none", "closed"} /\ wg[s] = 0 /\ cont[s] = "done"
ResultSane == Returned => result.kind # "none"
=========================================================================
