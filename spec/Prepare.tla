------------------------------- MODULE Prepare -------------------------------
(* Preparation (workflow/executor.go Prepare) as an order-nondeterministic construction of the dependency graph:
   the engine ranges over Go maps (steps, fields, options, outputs), so the order in which trees are connected is
   arbitrary.  TLC explores every order for each case and checks
     * confluence: every terminal state carries the same graph and verdict, namely
     * the declarative ones: ExpectedDAG(wf) and PrepareVerdict(wf) = acyclic /\ no dangling reference /\
       no group-node collision /\ type-compatible stage inputs /\ required inputs present   (C10, C16).
   Cases come from the workflow generator (valid workflows and their single-point corruptions); the verdict and the
   graph are exported and compared with what the real Prepare built.                                             *)
EXTENDS Workflow, Json
CONSTANT CaseFile
Cases == JsonDeserialize(CaseFile)

\* ---- static typing tables of the scripted plugin and the lifecycles -----------------------------------------
InputFields == {"x", "n", "flag"}
OutFields(kind, st, o) ==
  IF kind = "plugin" THEN
    CASE st = "outputs" /\ o \in {"success", "alt", "cancelled_early"} -> {"tok", "n", "l"}
      [] st = "outputs" /\ o = "error" -> {"reason"}
      [] st = "enabling" -> {"enabled"}   [] st = "disabled" -> {"message"}
      [] st = "crashed" -> {"output"}     [] st = "deploy_failed" -> {"error"}
      [] st = "closed" -> {"cancelled", "close_requested"}
      [] OTHER -> {}
  ELSE CASE st = "outputs" -> {"data"} [] st = "failed" -> {"data", "errors"} [] st = "enabling" -> {"enabled"}
         [] st = "disabled" -> {"message"} [] st = "closed" -> {"close_requested"} [] OTHER -> {}
PluginInputType(f) == CASE f = "id" -> "string" [] f = "s" -> "string" [] f = "n" -> "int" [] f = "b" -> "bool"
                        [] f = "f" -> "float" [] f = "l" -> "list" [] f = "deps" -> "any" [] OTHER -> "unknown"
\* value types carried by trees: ty of a literal is what its text can be read as; ty of a reference is the schema type
Compat(expected, ty) ==
  CASE expected = "any"    -> TRUE
    [] expected = "string" -> ty \in {"string", "intstr", "boolstr"}
    [] expected = "int"    -> ty \in {"int", "intstr"}
    [] expected = "bool"   -> ty \in {"bool", "boolstr"}
    [] expected = "float"  -> ty \in {"float", "int", "intstr"}
    [] expected = "list"   -> ty \in {"list"}
    [] OTHER -> FALSE

RECURSIVE Refs(_)
Refs(tree) ==
  CASE tree.t = "ref" -> {tree}
    [] tree.t = "map" -> UNION {Refs(tree.kids[k]) : k \in DOMAIN tree.kids}
    [] tree.t = "list" -> UNION {Refs(tree.kids[i]) : i \in DOMAIN tree.kids}
    [] tree.t = "opt" -> {tree.e}
    [] tree.t = "oneof" -> UNION {Refs(tree.opts[k]) : k \in DOMAIN tree.opts}
    [] OTHER -> {}
AllTrees(wf) == UNION {{wf.steps[s].fields[f] : f \in DOMAIN wf.steps[s].fields} : s \in StepIds(wf)} \cup {wf.outputs[o] : o \in OutputIds(wf)}

\* a reference names an existing node and, below it, an existing field
NodeOK(wf, n) == n \in ExpectedDAG(wf).nodes
SubOK(wf, r) ==
  IF r.mode = "opaque" \/ r.sub = <<>> THEN TRUE
  ELSE IF r.src = InputNode THEN r.sub[1] \in InputFields
  ELSE \E s \in StepIds(wf) : \E st \in StagesOf(KindOf(wf, s)) : \E o \in Declared(wf, s, st) :
         r.src = StageOutNode(s, st, o) /\ r.sub[1] \in OutFields(KindOf(wf, s), st, o)
Dangling(wf) == \E t \in AllTrees(wf) : \E r \in Refs(t) : (\E n \in Range(r.refs) : ~NodeOK(wf, n)) \/ ~SubOK(wf, r)

\* group nodes are named after the field path below the stage node, NOT including the field name: two tagged values
\* at the same path under different fields of one stage collide
RECURSIVE GroupIds(_, _, _)
GroupIds(tree, cur, path) ==
  CASE tree.t = "map"  -> UNION {GroupIds(tree.kids[k], cur, Append(path, k)) : k \in DOMAIN tree.kids}
    [] tree.t = "list" -> UNION {GroupIds(tree.kids[i], cur, Append(path, ToString(i - 1))) : i \in DOMAIN tree.kids}
    [] tree.t \in {"opt", "oneof"} -> {GroupNode(cur, path)}
    [] OTHER -> {}
Collision(wf) ==
  \E s \in StepIds(wf) : \E st \in StagesOf(KindOf(wf, s)) : \E f1, f2 \in StageFields(wf, s, st) :
     f1 # f2 /\ GroupIds(wf.steps[s].fields[f1], StageNode(s, st), <<>>) \cap GroupIds(wf.steps[s].fields[f2], StageNode(s, st), <<>>) # {}

TypeCompatible(wf) ==
  \A s \in StepIds(wf) : KindOf(wf, s) = "plugin" =>
     LET inp == wf.steps[s].fields["input"] IN
     \* a stop condition needs somebody to tell: it is a disabled property of a step whose plugin declares no cancel signal
     /\ ("stop_if" \in DOMAIN wf.steps[s].fields => wf.steps[s].handler)
     /\ inp.t = "map" /\ "id" \in DOMAIN inp.kids
     /\ \A f \in DOMAIN inp.kids : PluginInputType(f) # "unknown"
                                    /\ (inp.kids[f].t \in {"lit", "ref"} => Compat(PluginInputType(f), inp.kids[f].ty))
                                    \* an optional tag does not exempt a reference from the type check
                                    /\ (inp.kids[f].t = "opt" /\ inp.kids[f].e.t = "ref" => Compat(PluginInputType(f), inp.kids[f].e.ty))
\* a one-of adds its discriminator to the data of the chosen alternative: an alternative that is a whole output object
\* which has a field of that name already makes the one-of ill-formed
RECURSIVE OneOfs(_)
OneOfs(tree) ==
  CASE tree.t = "oneof" -> {tree} \cup UNION {OneOfs(tree.opts[k]) : k \in DOMAIN tree.opts}
    [] tree.t = "map"   -> UNION {OneOfs(tree.kids[k]) : k \in DOMAIN tree.kids}
    [] tree.t = "list"  -> UNION {OneOfs(tree.kids[i]) : i \in DOMAIN tree.kids}
    [] OTHER -> {}
\* (decided for the workflow's outputs, whose schema is inferred and linked as a whole; a step input of type any takes
\* such a value as it comes)
DiscClash(wf) ==
  \E t \in {wf.outputs[x] : x \in OutputIds(wf)} : \E o \in OneOfs(t) : \E k \in DOMAIN o.opts :
     LET e == o.opts[k] IN
     e.t = "ref" /\ e.mode # "opaque" /\ e.sub = <<>>
     /\ \E s \in StepIds(wf) : \E st \in StagesOf(KindOf(wf, s)) : \E out \in Declared(wf, s, st) :
          e.src = StageOutNode(s, st, out) /\ o.disc \in OutFields(KindOf(wf, s), st, out)
PrepareVerdict(wf) == ~Dangling(wf) /\ ~Collision(wf) /\ Acyclic(ExpectedDAG(wf)) /\ TypeCompatible(wf) /\ ~DiscClash(wf)

\* ---- the order-nondeterministic construction ------------------------------------------------------------------
VARIABLES ci, dag, todo, failed
vars == <<ci, dag, todo, failed>>
WF == Cases[ci].wf
WorkItems(wf) ==
  UNION {{<<"field", s, st, f>> : f \in StageFields(wf, s, st)} : s \in StepIds(wf), st \in UNION {StagesOf(KindOf(wf, x)) : x \in StepIds(wf)}}
  \cup {<<"out", id, "", "">> : id \in OutputIds(wf)}
Phase1(wf) == DagUnion({[nodes |-> {InputNode}, edges |-> {}]} \cup {StepDag(wf, s) : s \in StepIds(wf)})
Init == /\ ci \in 1..Len(Cases)
        /\ dag = Phase1(Cases[ci].wf) /\ failed = FALSE
        /\ todo = {w \in WorkItems(Cases[ci].wf) : w[1] = "out" \/ w[3] \in StagesOf(KindOf(Cases[ci].wf, w[2]))}
ItemDag(w) == IF w[1] = "field" THEN TreeDag(WF.steps[w[2]].fields[w[4]], StageNode(w[2], w[3]), <<>>)
              ELSE DagUnion({[nodes |-> {OutputNode(w[2])}, edges |-> {}], TreeDag(WF.outputs[w[2]], OutputNode(w[2]), <<>>)})
\* outputs are connected after every step field (Stage 6 of Prepare)
Ready(w) == w[1] = "field" \/ ~\E v \in todo : v[1] = "field"
Connect(w) ==
  /\ w \in todo /\ Ready(w) /\ ~failed
  /\ LET d == ItemDag(w)
         clash == d.nodes \cap dag.nodes # {}                                  \* AddNode of an existing id
         missing == \E e \in d.edges : e[2] \notin dag.nodes \cup d.nodes        \* GetNodeByID of an unknown id
     IN  IF clash \/ missing THEN failed' = TRUE /\ dag' = dag
         ELSE failed' = FALSE /\ dag' = DagUnion({dag, d})
  /\ todo' = todo \ {w} /\ ci' = ci
Next == \E w \in todo : Connect(w)
Spec == Init /\ [][Next]_vars
Terminal == failed \/ todo = {}
Accepted == ~failed /\ todo = {} /\ Acyclic(dag) /\ TypeCompatible(WF) /\ ~DiscClash(WF) /\ (~\E t \in AllTrees(WF) : \E r \in Refs(t) : ~SubOK(WF, r))
\* C16 (confluence) and C10 (the declarative graph and verdict), in every terminal state of every order
Confluent == Terminal => /\ Accepted = PrepareVerdict(WF)
                         /\ (Accepted => dag = ExpectedDAG(WF))
EdgeSeq(S) == LET RECURSIVE F(_) F(T) == IF T = {} THEN <<>> ELSE LET x == CHOOSE y \in T : TRUE IN <<x>> \o F(T \ {x}) IN F(S)
Export == Terminal =>
            PrintT(<<"PREPARE", ci, Accepted, IF Accepted THEN ToJson([nodes |-> EdgeSeq(dag.nodes), edges |-> EdgeSeq(dag.edges),
                                                                      req |-> [id \in DOMAIN WF.outputs |-> EdgeSeq(RequiredKeys(WF.outputs[id]))]]) ELSE "{}">>)
=============================================================================
