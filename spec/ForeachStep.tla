---------------------------- MODULE ForeachStep ----------------------------
(* One running foreach step (internal/step/foreach/provider.go): enabling, execute input, the item pool bounded by a
   semaphore of size `parallelism`, collection of per-item results, and Close at any time.  Sub-runs are abstracted
   to a nondeterministic per-item result (ok / err); with the context cancelled a sub-run returns an error.       *)
EXTENDS Naturals, Sequences, FiniteSets, TLC
CONSTANTS N,        \* number of items
          Par,      \* parallelism
          AbortedCountAsFailed   \* TRUE: the repaired engine
Items == 1..N
VARIABLES phase,    \* "enabling" | "awaitExec" | "executing" | "collected" | "closedEarly" | "disabled" | "silent"
          enabledIn,\* "none" | "T" | "F"
          execIn,   \* execute input provided
          ctx, closedFlag, sem, ist, notif, closePc, wgRun
vars == <<phase, enabledIn, execIn, ctx, closedFlag, sem, ist, notif, closePc, wgRun>>
Init == /\ phase = "enabling" /\ enabledIn = "none" /\ execIn = FALSE /\ ctx = FALSE /\ closedFlag = FALSE /\ sem = 0
        /\ ist = [i \in Items |-> "idle"] /\ notif = <<>> /\ closePc = "idle" /\ wgRun = 1
N3(k, st, o) == [k |-> k, stage |-> st, out |-> o]
ProvideEnabled(v) == /\ enabledIn = "none" /\ ~closedFlag /\ enabledIn' = v
                     /\ UNCHANGED <<phase, execIn, ctx, closedFlag, sem, ist, notif, closePc, wgRun>>
ProvideExecute == /\ ~execIn /\ ~closedFlag /\ execIn' = TRUE
                  /\ UNCHANGED <<phase, enabledIn, ctx, closedFlag, sem, ist, notif, closePc, wgRun>>
\* run(): enabling
EnableT == /\ phase = "enabling" /\ enabledIn = "T"
           /\ notif' = notif \o <<N3("F", "disabled", "nil"), N3("SC", "enabling", "resolved")>>
           /\ phase' = "awaitExec" /\ UNCHANGED <<enabledIn, execIn, ctx, closedFlag, sem, ist, closePc, wgRun>>
EnableF == /\ phase = "enabling" /\ enabledIn = "F"
           /\ notif' = notif \o <<N3("SC", "enabling", "resolved"), N3("CO", "disabled", "output"), N3("F", "execute", "nil"),
                                  N3("F", "outputs", "nil"), N3("F", "closed", "nil")>>
           /\ phase' = "disabled" /\ wgRun' = 0 /\ UNCHANGED <<enabledIn, execIn, ctx, closedFlag, sem, ist, closePc>>
EnableCtx == /\ phase = "enabling" /\ ctx
             /\ notif' = notif \o <<N3("F", "enabling", "nil"), N3("CO", "closed", "result"), N3("F", "execute", "nil"), N3("F", "outputs", "nil")>>
             /\ phase' = "closedEarly" /\ wgRun' = 0 /\ UNCHANGED <<enabledIn, execIn, ctx, closedFlag, sem, ist, closePc>>
\* runOnInput
TakeExec == /\ phase = "awaitExec" /\ execIn
            /\ phase' = "executing" /\ ist' = [i \in Items |-> "queued"]
            /\ UNCHANGED <<enabledIn, execIn, ctx, closedFlag, sem, notif, closePc, wgRun>>
\* closed while waiting for the execute input: run() returns without reporting a completion (as the code does)
ExecCtx == /\ phase = "awaitExec" /\ ctx /\ phase' = "silent" /\ wgRun' = 0
           /\ UNCHANGED <<enabledIn, execIn, ctx, closedFlag, sem, ist, notif, closePc>>
\* items
Acquire(i) == /\ phase = "executing" /\ ist[i] = "queued" /\ sem < Par /\ sem' = sem + 1
              /\ ist' = [ist EXCEPT ![i] = "running"] /\ UNCHANGED <<phase, enabledIn, execIn, ctx, closedFlag, notif, closePc, wgRun>>
Abort(i) == /\ phase = "executing" /\ ist[i] = "queued" /\ ctx
            /\ ist' = [ist EXCEPT ![i] = "aborted"] /\ UNCHANGED <<phase, enabledIn, execIn, ctx, closedFlag, sem, notif, closePc, wgRun>>
Finish(i) == /\ phase = "executing" /\ ist[i] = "running"
             /\ \E r \in (IF ctx THEN {"err"} ELSE {"ok", "err"}) : ist' = [ist EXCEPT ![i] = r]
             /\ sem' = sem - 1                      \* the deferred release
             /\ UNCHANGED <<phase, enabledIn, execIn, ctx, closedFlag, notif, closePc, wgRun>>
AllDone == \A i \in Items : ist[i] \in {"ok", "err", "aborted"}
\* an aborted item has no result and counts as failed (engine repair 503c7f3; AbortedCountAsFailed = FALSE is the engine
\* before it, in which SuccessOnlyIfAllOk is violated: success with holes)
Failed == {i \in Items : ist[i] = "err" \/ (AbortedCountAsFailed /\ ist[i] = "aborted")}
Collect == /\ phase = "executing" /\ AllDone
           /\ notif' = notif \o (IF Failed = {}
                                   THEN <<N3("SC", "execute", "nil"), N3("F", "failed", "nil"), N3("CO", "outputs", "success")>>
                                   ELSE <<N3("SC", "execute", "nil"), N3("F", "outputs", "nil"), N3("CO", "failed", "error")>>)
           /\ phase' = "collected" /\ wgRun' = 0
           /\ UNCHANGED <<enabledIn, execIn, ctx, closedFlag, sem, ist, closePc>>
\* Close / ForceClose
CloseSwap == /\ closePc = "idle" /\ closePc' = "cancel" /\ closedFlag' = TRUE
             /\ UNCHANGED <<phase, enabledIn, execIn, ctx, sem, ist, notif, wgRun>>
CloseCancel == /\ closePc = "cancel" /\ ctx' = TRUE /\ closePc' = "wait"
               /\ UNCHANGED <<phase, enabledIn, execIn, closedFlag, sem, ist, notif, wgRun>>
CloseWait == /\ closePc = "wait" /\ wgRun = 0 /\ closePc' = "ret"
             /\ UNCHANGED <<phase, enabledIn, execIn, ctx, closedFlag, sem, ist, notif, wgRun>>
RunNext == EnableT \/ EnableF \/ EnableCtx \/ TakeExec \/ ExecCtx \/ Collect \/ \E i \in Items : Acquire(i) \/ Abort(i) \/ Finish(i)
Next == RunNext \/ (\E v \in {"T", "F"} : ProvideEnabled(v)) \/ ProvideExecute \/ CloseSwap \/ CloseCancel \/ CloseWait
Spec == Init /\ [][Next]_vars
FairSpec == Spec /\ WF_vars(RunNext) /\ WF_vars(CloseCancel) /\ WF_vars(CloseWait)
\* C13
WithinParallelism == Cardinality({i \in Items : ist[i] = "running"}) <= Par /\ sem <= Par
SemMatches == sem = Cardinality({i \in Items : ist[i] = "running"})
Completions == {k \in DOMAIN notif : notif[k].k = "CO"}
\* Found in this model first: items aborted by Close left no error entry, so a loop closed while items were still queued
\* reported SUCCESS with holes.  Reproduced on the code by check C13 (cancel-between-items), repaired, now an invariant.
SuccessOnlyIfAllOk == \A k \in Completions : notif[k].out = "success" => \A i \in Items : ist[i] = "ok"
SuccessOnlyIfNoneFailedOrClosed == \A k \in Completions : notif[k].out = "success" => (Failed = {} /\ (~ctx => \A i \in Items : ist[i] = "ok"))
FailureOnlyIfSomeErr == \A k \in Completions : notif[k].out = "error" => Failed # {}
NoItemLostOnSuccess == \A k \in Completions : (notif[k].out = "success" /\ ~ctx) => Cardinality({i \in Items : ist[i] = "ok"}) = N
\* C12 (foreach anchor)
AtMostOneCompletion == Cardinality(Completions) <= 1
CloseReturns == (closePc = "cancel") ~> (closePc = "ret")
\* known deviation, kept visible: a step closed while waiting for its execute input reports no completion
CompletionAfterClose == closePc = "ret" => (Cardinality(Completions) = 1 \/ phase = "silent")
\* Refinement: with the items made anonymous, this module implements the counter abstraction ForeachCounters.tla, whose
\* inductive invariant Apalache discharges for ANY number of items and ANY parallelism (TLC checks the refinement for the
\* bounded N here: PROPERTY CountersSpec).
Count(st) == Cardinality({i \in Items : ist[i] = st})
NotStarted == \A i \in Items : ist[i] = "idle"
LoopOutcome == IF \E k \in Completions : notif[k].stage = "outputs" /\ notif[k].out = "success" THEN "success"
               ELSE IF \E k \in Completions : notif[k].stage = "failed" /\ notif[k].out = "error" THEN "error" ELSE "none"
FC == INSTANCE ForeachCounters WITH q <- IF NotStarted THEN N ELSE Count("queued"), r <- Count("running"), ok <- Count("ok"),
        err <- Count("err"), ab <- Count("aborted"), phase <- IF phase = "collected" THEN "collected" ELSE "executing",
        outcome <- LoopOutcome
CountersSpec == FC!Spec
CountersInv == FC!IndInv /\ FC!Safety
=============================================================================
