----------------------------- MODULE InputNorm -----------------------------
(* Workflow input validation and normalisation (C19): two input schemas - one that declares no property at all, and one with one field per schema shape
   (required string, optional integer with default, optional bool, optional list of integers, optional nested
   object with a required and a defaulted field) and, per field, the kinds of value a YAML input file can give
   it (every YAML scalar reaches the engine as a string).  For a batch of documents (one kind per field) TLC
   exports the verdict and the normalised form as typed leaves "<t>:<value>" - the oracle for what every step
   must observe for $.input (defaults filled in, typed values), and for "invalid input starts nothing".        *)
EXTENDS Naturals, Sequences, FiniteSets, TLC, Json
CONSTANT CaseFile
Docs == JsonDeserialize(CaseFile)

SKinds == {"absent", "str", "numstr", "list", "map"}
IKinds == {"absent", "num", "neg", "notnum", "boolish", "list"}
BKinds == {"absent", "true", "false", "yes", "off", "five", "word", "list"}
LKinds == {"absent", "empty", "nums", "mixed", "scalar"}
OKinds == {"absent", "min", "full", "noreq", "extra", "scalar", "badm"}
XKinds == {"absent", "present"}      \* an undeclared top-level key
MKinds == {"absent", "ints", "badkey"} \* a map with integer keys: integers as keys, or a key that is no integer
PKinds == {"absent", "re", "badre"}  \* a pattern-typed field: a regular expression, or text that is none
WKinds == {"map", "list", "scalar"}   \* what the whole document is
Schemas == {"full", "empty"}          \* "empty": an input object that declares no properties - only the empty map is valid

SValid(k) == k \in {"str", "numstr"}                   \* required: absent is invalid
IValid(k) == k \in {"absent", "num", "neg"}
BValid(k) == k \in {"absent", "true", "false", "yes", "off"}
LValid(k) == k \in {"absent", "empty", "nums"}
OValid(k) == k \in {"absent", "min", "full"}
XValid(k) == k = "absent"
PValid(k) == k \in {"absent", "re"}
MValid(k) == k \in {"absent", "ints"}
AllAbsent(d) == d.s = "absent" /\ d.i = "absent" /\ d.b = "absent" /\ d.l = "absent" /\ d.o = "absent" /\ d.x = "absent" /\ d.p = "absent" /\ d.m = "absent"
Valid(d) == /\ d.w = "map"
            /\ IF d.schema = "empty" THEN AllAbsent(d)
               ELSE SValid(d.s) /\ IValid(d.i) /\ BValid(d.b) /\ LValid(d.l) /\ OValid(d.o) /\ XValid(d.x) /\ PValid(d.p) /\ MValid(d.m)

L(p, v) == <<p, v>>
SNorm(k) == CASE k = "str" -> {L(<<"s">>, "s:hello")} [] k = "numstr" -> {L(<<"s">>, "s:12")} [] OTHER -> {}
INorm(k) == CASE k = "absent" -> {L(<<"i">>, "i:7")}        \* the declared default
              [] k = "num" -> {L(<<"i">>, "i:5")} [] k = "neg" -> {L(<<"i">>, "i:-3")} [] OTHER -> {}
BNorm(k) == CASE k \in {"true", "yes"} -> {L(<<"b">>, "b:true")} [] k \in {"false", "off"} -> {L(<<"b">>, "b:false")} [] OTHER -> {}
LNorm(k) == CASE k = "empty" -> {L(<<"l">>, "e:[]")} [] k = "nums" -> {L(<<"l", "0">>, "i:1"), L(<<"l", "1">>, "i:2")} [] OTHER -> {}
ONorm(k) == CASE k = "min"  -> {L(<<"o", "k">>, "s:v"), L(<<"o", "m">>, "i:1")}     \* nested default
              [] k = "full" -> {L(<<"o", "k">>, "s:v"), L(<<"o", "m">>, "i:4")} [] OTHER -> {}
\* what steps and outputs see of a pattern is its text (the serialized form), not a compiled expression
PNorm(k) == CASE k = "re" -> {L(<<"p">>, "s:^ab+c$")} [] OTHER -> {}
MNorm(k) == CASE k = "ints" -> {L(<<"m", "80">>, "s:http"), L(<<"m", "443">>, "s:https")} [] OTHER -> {}
Norm(d) == IF d.schema = "empty" THEN {} ELSE SNorm(d.s) \cup INorm(d.i) \cup BNorm(d.b) \cup LNorm(d.l) \cup ONorm(d.o) \cup PNorm(d.p) \cup MNorm(d.m)

AllDocs == [s : SKinds, i : IKinds, b : BKinds, l : LKinds, o : OKinds, x : XKinds, p : PKinds, m : MKinds, w : WKinds, schema : Schemas]
ASSUME \A k \in DOMAIN Docs : Docs[k] \in AllDocs
\* the normal form of a valid document is a function of the path (no two values for one path) and total on the
\* fields that have a value or a default
WellFormed == \A k \in DOMAIN Docs : (Valid(Docs[k]) /\ Docs[k].schema = "full") =>
                 /\ \A a, b \in Norm(Docs[k]) : a[1] = b[1] => a = b
                 /\ \E a \in Norm(Docs[k]) : a[1] = <<"s">>
                 /\ \E a \in Norm(Docs[k]) : a[1] = <<"i">>
ASSUME WellFormed
LeafSeq(S) == LET RECURSIVE F(_) F(T) == IF T = {} THEN <<>> ELSE LET x == CHOOSE y \in T : TRUE IN <<[p |-> x[1], v |-> x[2]]>> \o F(T \ {x}) IN F(S)
VARIABLE k
Init == k = 1
Next == k <= Len(Docs) /\ PrintT(<<"INPUT", k, Valid(Docs[k]), ToJson(LeafSeq(IF Valid(Docs[k]) THEN Norm(Docs[k]) ELSE {}))>>) /\ k' = k + 1
Spec == Init /\ [][Next]_k
=============================================================================
