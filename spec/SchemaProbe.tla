---------------------------- MODULE SchemaProbe ----------------------------
(* pluginProvider.LoadSchema (internal/step/plugin/provider.go) as a straight-line program with four fault points:
   the temporary deployment made to read a plugin's schema while a workflow is parsed (C05, parse-time part).
   TLC enumerates all 2^4 fault vectors; the invariant is the property: whatever fails, a deployment that was made
   is closed before LoadSchema returns.  Every terminal state is exported and replayed against the real code with
   the scripted connection injecting the same faults.                                                          *)
EXTENDS Naturals, TLC, Json
VARIABLES f, pc, deployed, closed, result
vars == <<f, pc, deployed, closed, result>>
Faults == [deploy : BOOLEAN, read : BOOLEAN, atpclose : BOOLEAN, connclose : BOOLEAN]
Init == f \in Faults /\ pc = "deploy" /\ deployed = FALSE /\ closed = FALSE /\ result = "none"
Deploy == /\ pc = "deploy"
          /\ IF f.deploy THEN pc' = "done" /\ result' = "error" /\ UNCHANGED deployed
                         ELSE pc' = "read" /\ deployed' = TRUE /\ UNCHANGED result
          /\ UNCHANGED <<f, closed>>
Read == /\ pc = "read"
        /\ IF f.read THEN pc' = "done" /\ closed' = TRUE /\ result' = "error"      \* closes the connector on this path
                     ELSE pc' = "atpclose" /\ UNCHANGED <<closed, result>>
        /\ UNCHANGED <<f, deployed>>
AtpClose == /\ pc = "atpclose"
            /\ IF f.atpclose THEN pc' = "done" /\ closed' = TRUE /\ result' = "error"  \* must still close the connector
                             ELSE pc' = "connclose" /\ UNCHANGED <<closed, result>>
            /\ UNCHANGED <<f, deployed>>
ConnClose == /\ pc = "connclose" /\ closed' = TRUE /\ pc' = "done"
             /\ result' = IF f.connclose THEN "error" ELSE "ok"
             /\ UNCHANGED <<f, deployed>>
Next == Deploy \/ Read \/ AtpClose \/ ConnClose
Spec == Init /\ [][Next]_vars
NothingLeftDeployed == pc = "done" => (deployed => closed)
ErrorIffFault == pc = "done" => ((result = "error") <=> (f.deploy \/ f.read \/ f.atpclose \/ f.connclose))
\* a connection whose read fails cannot reach the later fault points; such vectors behave like their prefix
Export == pc = "done" => PrintT(<<"PROBE", ToJson(f), deployed, closed, result>>)
=============================================================================
