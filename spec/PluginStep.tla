--------------------------- MODULE PluginStep ---------------------------
(* One running plugin step (internal/step/plugin/provider.go runningStep) with a fully nondeterministic
   environment. Straight-line code between blocking points is a queue of micro-operations (pend):
   Set = assignment of currentStage/state under the step lock, SC/CO/F = callbacks into the handler. *)
EXTENDS Naturals, Sequences, FiniteSets, TLC

CONSTANTS HasHandler,      \* plugin declares the cancel signal
          Closers,         \* identities of concurrent Close/ForceClose callers
          MaxProvide       \* bound on the number of Provide* calls of each kind (history bound)

Nil == "nil"
VARIABLES stage, state, prevStage, pend, cont,
          slotD, slotE, slotR, availD, availE, availR, nProv,
          ctx, cancelledFlag, closedFlag, conn, exec, execRes, sigNil, sigQ, resQ, wg,
          cpc, notif, refused, plugin

vars == <<stage, state, prevStage, pend, cont, slotD, slotE, slotR, availD, availE, availR, nProv,
          ctx, cancelledFlag, closedFlag, conn, exec, execRes, sigNil, sigQ, resQ, wg, cpc, notif, refused, plugin>>

Set(st, sa)        == [op |-> "Set", stage |-> st, state |-> sa]
SetSt(sa)          == [op |-> "SetSt", state |-> sa]
SC(new, out)       == [op |-> "SC", new |-> new, out |-> out]      \* prev = prevStage at execution time
SC0(new)           == [op |-> "SC0", new |-> new]                   \* previous stage nil
CO(out)            == [op |-> "CO", out |-> out]
F(st)              == [op |-> "F", stage |-> st]
FP                 == [op |-> "FP"]                                  \* OnStepStageFailure(previous stage)
FromFailed(st, sa) == <<Set(st, sa), FP>>                            \* transitionFromFailedStage: Set, then F(prev)

Failures(from) ==
  CASE from = "enabling" -> <<F("enabling"), F("disabled"), F("starting"), F("running"), F("outputs")>>
    [] from = "starting" -> <<F("starting"), F("running"), F("outputs")>>
    [] from = "running"  -> <<F("running"), F("outputs")>>
    [] from = "outputs"  -> <<F("outputs")>>

ClosedEarly(from, priorFailed) ==
  (IF priorFailed THEN FromFailed("closed", "running") ELSE <<Set("closed", "running"), SC("closed", Nil)>>)
  \o <<Set("closed", "finished"), CO("result")>> \o Failures(from)
DeployFailedScript == <<Set("deploy_failed", "running"), SC("deploy_failed", Nil), Set("deploy_failed", "finished"),
                        CO("error")>> \o Failures("enabling") \o <<F("closed")>>
DisabledScript == <<Set("disabled", "running"), SC("disabled", "resolved"), Set("disabled", "finished"), CO("output")>>
                  \o Failures("starting") \o <<F("closed")>>
StartFailedScript == FromFailed("crashed", "running") \o <<Set("crashed", "finished"), CO("error")>>
                     \o Failures("running") \o <<F("closed")>>
RunFailedScript == <<Set("crashed", "running"), SC("crashed", Nil), Set("crashed", "finished"), CO("error")>>
                   \o Failures("outputs") \o <<F("closed")>>
SuccessScript(o) == <<Set("outputs", "running"), SC("outputs", Nil), Set("outputs", "finished"), CO(o)>>

Init ==
  /\ stage = "deploy" /\ state = "starting" /\ prevStage = Nil
  /\ pend = <<SetSt("running"), SC0("deploy")>> /\ cont = "tryD"
  /\ slotD = 0 /\ slotE = "empty" /\ slotR = 0
  /\ availD = FALSE /\ availE = FALSE /\ availR = FALSE /\ nProv = [k \in {"D","E","R","C"} |-> 0]
  /\ ctx = FALSE /\ cancelledFlag = FALSE /\ closedFlag = FALSE
  /\ conn = "none" /\ exec = "none" /\ execRes = Nil /\ sigNil = FALSE /\ sigQ = 0 /\ resQ = <<>> /\ wg = 1
  /\ cpc = [c \in Closers |-> "idle"] /\ notif = <<>> /\ refused = 0 /\ plugin = "idle"

U(v) == UNCHANGED v
StepLocal == <<slotD, slotE, slotR, availD, availE, availR, nProv, cancelledFlag, closedFlag, cpc, refused>>

----------------------------------------------------------------------------
\* run() goroutine

StepMicro ==
  /\ pend # <<>>
  /\ LET m == Head(pend) IN
     /\ pend' = Tail(pend)
     /\ CASE m.op = "Set"   -> /\ prevStage' = stage /\ stage' = m.stage /\ state' = m.state /\ U(notif)
          [] m.op = "SetSt" -> /\ state' = m.state /\ U(<<prevStage, stage, notif>>)
          [] m.op = "FP"    -> /\ notif' = Append(notif, [k |-> "F", stage |-> prevStage])
                               /\ U(<<prevStage, stage, state>>)
          [] m.op = "SC"    -> /\ notif' = Append(notif, [k |-> "SC", prev |-> prevStage, new |-> m.new, out |-> m.out])
                               /\ U(<<prevStage, stage, state>>)
          [] m.op = "SC0"   -> /\ notif' = Append(notif, [k |-> "SC", prev |-> Nil, new |-> m.new, out |-> Nil])
                               /\ U(<<prevStage, stage, state>>)
          [] m.op = "CO"    -> /\ notif' = Append(notif, [k |-> "CO", prev |-> stage, out |-> m.out])
                               /\ U(<<prevStage, stage, state>>)
          [] m.op = "F"     -> /\ notif' = Append(notif, [k |-> "F", stage |-> m.stage])
                               /\ U(<<prevStage, stage, state>>)
  /\ U(<<cont, ctx, conn, exec, execRes, sigNil, sigQ, resQ, wg, plugin>>) /\ U(StepLocal)

Go(p, c) == pend' = p /\ cont' = c
Idle == pend = <<>>
Rest1 == <<stage, state, prevStage, notif>>

\* The non-blocking receive.  ProvideStageInput announces the input (deployInputAvailable, state) under the step lock and
\* puts it into the channel afterwards, so the receive can miss an input that is already announced: the step then keeps
\* its state (engine repair e57f46d: it declares waiting only if no input was announced) and picks the input up - or
\* notices its cancelled context, whichever the select takes - at the blocking receive (TryDMissLate).
TryD == /\ Idle /\ cont = "tryD"
        /\ \/ slotD = 1 /\ slotD' = 0 /\ Go(<<SetSt("running")>>, "deploy")
           \/ slotD = 1 /\ U(slotD) /\ Go(<<SetSt(state)>>, "awaitD")
           \/ slotD = 0 /\ U(slotD) /\ Go(<<SetSt("waiting_for_input")>>, "awaitD")
        /\ U(<<slotE, slotR, availD, availE, availR, nProv, cancelledFlag, closedFlag, cpc, refused>>)
        /\ U(<<ctx, conn, exec, execRes, sigNil, sigQ, resQ, wg, plugin>>) /\ U(Rest1)
AwaitD == /\ Idle /\ cont = "awaitD"
          /\ \/ slotD = 1 /\ slotD' = 0 /\ Go(<<SetSt("running")>>, "deploy")
             \/ ctx /\ U(slotD) /\ Go(ClosedEarly("enabling", TRUE), "exit")
          /\ U(<<slotE, slotR, availD, availE, availR, nProv, cancelledFlag, closedFlag, cpc, refused>>)
          /\ U(<<ctx, conn, exec, execRes, sigNil, sigQ, resQ, wg, plugin>>) /\ U(Rest1)
Deploy == /\ Idle /\ cont = "deploy"
          /\ \/ Go(DeployFailedScript, "exit") /\ U(conn)
             \/ conn' = "pending" /\ Go(<<>>, "postDeploy")
          /\ U(StepLocal) /\ U(<<ctx, exec, execRes, sigNil, sigQ, resQ, wg, plugin>>) /\ U(Rest1)
PostDeploy == /\ Idle /\ cont = "postDeploy"
              /\ IF ctx THEN conn' = "closed" /\ Go(ClosedEarly("enabling", FALSE), "exit")
                        ELSE conn' = "live" /\ Go(<<Set("enabling", IF availE THEN "running" ELSE "waiting_for_input"), SC("enabling", Nil)>>, "awaitE")
              /\ U(StepLocal) /\ U(<<ctx, exec, execRes, sigNil, sigQ, resQ, wg, plugin>>) /\ U(Rest1)
AwaitE == /\ Idle /\ cont = "awaitE"
          /\ \/ slotE = "T" /\ slotE' = "empty" /\ Go(<<F("disabled")>>, "tryR")
             \/ slotE = "F" /\ slotE' = "empty" /\ Go(DisabledScript, "exit")
             \/ ctx /\ U(slotE) /\ Go(ClosedEarly("starting", TRUE), "exit")
          /\ U(<<slotD, slotR, availD, availE, availR, nProv, cancelledFlag, closedFlag, cpc, refused>>)
          /\ U(<<ctx, conn, exec, execRes, sigNil, sigQ, resQ, wg, plugin>>) /\ U(Rest1)
TryR == /\ Idle /\ cont = "tryR"
        /\ IF slotR = 1 THEN slotR' = 0 /\ Go(<<Set("starting", "running"), SC("starting", "resolved")>>, "readSchema")
                        ELSE U(slotR) /\ Go(<<Set("starting", "waiting_for_input"), SC("starting", "resolved")>>, "awaitR")
        /\ U(<<slotD, slotE, availD, availE, availR, nProv, cancelledFlag, closedFlag, cpc, refused>>)
        /\ U(<<ctx, conn, exec, execRes, sigNil, sigQ, resQ, wg, plugin>>) /\ U(Rest1)
AwaitR == /\ Idle /\ cont = "awaitR"
          /\ \/ slotR = 1 /\ slotR' = 0 /\ Go(<<SetSt("running")>>, "readSchema")
             \/ ctx /\ U(slotR) /\ Go(ClosedEarly("running", TRUE), "exit")
          /\ U(<<slotD, slotE, availD, availE, availR, nProv, cancelledFlag, closedFlag, cpc, refused>>)
          /\ U(<<ctx, conn, exec, execRes, sigNil, sigQ, resQ, wg, plugin>>) /\ U(Rest1)
\* Before anything is started the step looks at its context once more (engine repair cbe5b25: a stop condition or a close
\* that arrived together with the run input takes precedence over it): cancelled, it leaves as closed, the starting stage failed.
ReadSchema == /\ Idle /\ cont = "readSchema"
              /\ \/ Go(StartFailedScript, "exit") /\ U(<<exec, wg, plugin>>)
                 \/ ctx /\ Go(ClosedEarly("running", TRUE), "exit") /\ U(<<exec, wg, plugin>>)
                 \/ /\ wg' = wg + 1 /\ exec' = "running" /\ plugin' = "called"
                    /\ Go(<<Set("running", "running"), SC("running", "started")>>, "awaitRes")
              /\ U(StepLocal) /\ U(<<ctx, conn, execRes, sigNil, sigQ, resQ>>) /\ U(Rest1)
TakeResult == /\ resQ # <<>>
              /\ resQ' = Tail(resQ)
              /\ IF Head(resQ) = "err" THEN Go(RunFailedScript, "exit") ELSE Go(SuccessScript(Head(resQ)), "exit")
AwaitRes == /\ Idle /\ cont = "awaitRes"
            /\ \/ TakeResult /\ U(closedFlag)
               \/ ctx /\ resQ' = resQ /\ HasHandler /\ Go(<<>>, "cancelSend") /\ U(closedFlag)
               \/ ctx /\ resQ' = resQ /\ ~HasHandler /\ closedFlag' = TRUE /\ Go(RunFailedScript, "exit")
            /\ U(<<slotD, slotE, slotR, availD, availE, availR, nProv, cancelledFlag, cpc, refused>>)
            /\ U(<<ctx, conn, exec, execRes, sigNil, sigQ, wg, plugin>>) /\ U(Rest1)
CancelSend == /\ Idle /\ cont = "cancelSend"
              /\ sigQ' = IF stage = "running" /\ ~sigNil THEN sigQ + 1 ELSE sigQ
              /\ Go(<<>>, "awaitResCancel")
              /\ U(StepLocal) /\ U(<<ctx, conn, exec, execRes, sigNil, resQ, wg, plugin>>) /\ U(Rest1)
AwaitResCancel == /\ Idle /\ cont = "awaitResCancel"
                  /\ \/ TakeResult /\ U(closedFlag)
                     \/ resQ' = resQ /\ closedFlag' = TRUE /\ Go(RunFailedScript, "exit")     \* closure timer
                  /\ U(<<slotD, slotE, slotR, availD, availE, availR, nProv, cancelledFlag, cpc, refused>>)
                  /\ U(<<ctx, conn, exec, execRes, sigNil, sigQ, wg, plugin>>) /\ U(Rest1)
\* run()'s deferred calls: first the connection is closed (which waits for the plugin side to stop), then cancel + wg.Done
DeferClose == /\ Idle /\ cont = "exit"
              /\ conn' = IF conn = "live" THEN "closed" ELSE conn
              /\ Go(<<>>, "exit2")
              /\ U(StepLocal) /\ U(<<ctx, exec, execRes, sigNil, sigQ, resQ, wg, plugin>>) /\ U(Rest1)
Exit == /\ Idle /\ cont = "exit2"
        /\ ctx' = TRUE /\ wg' = wg - 1 /\ Go(<<>>, "done")
        /\ U(StepLocal) /\ U(<<conn, exec, execRes, sigNil, sigQ, resQ, plugin>>) /\ U(Rest1)

----------------------------------------------------------------------------
\* Execute goroutine and the plugin
\* the Execute call travels to the plugin, which then starts working (PluginStart) - unless the connection is closed before
\* the call gets there: then the call fails without the plugin ever having started (ExecNeverReached)
PluginStart == /\ exec = "running" /\ plugin = "called" /\ plugin' = "working"
               /\ U(<<stage, state, prevStage, pend, cont, ctx, conn, exec, execRes, sigNil, sigQ, resQ, wg, notif>>) /\ U(StepLocal)
ExecNeverReached == /\ exec = "running" /\ plugin = "called" /\ conn = "closed"
                    /\ execRes' = "err" /\ plugin' = "finished" /\ exec' = "returned"
                    /\ U(<<stage, state, prevStage, pend, cont, ctx, conn, sigNil, sigQ, resQ, wg, notif>>) /\ U(StepLocal)
PluginReturn == /\ exec = "running" /\ plugin = "working"
                /\ \E r \in {"success", "alt", "error", "err"} : execRes' = r
                /\ plugin' = "finished" /\ exec' = "returned"
                /\ U(<<stage, state, prevStage, pend, cont, ctx, conn, sigNil, sigQ, resQ, wg, notif>>) /\ U(StepLocal)
PluginCancelled == /\ exec = "running" /\ plugin = "working" /\ sigQ > 0
                   /\ execRes' = "cancelled_early" /\ plugin' = "finished" /\ exec' = "returned"
                   /\ U(<<stage, state, prevStage, pend, cont, ctx, conn, sigNil, sigQ, resQ, wg, notif>>) /\ U(StepLocal)
ExecAbort == /\ exec = "running" /\ plugin = "working" /\ conn = "closed"
             /\ execRes' = "err" /\ plugin' = "finished" /\ exec' = "returned"
             /\ U(<<stage, state, prevStage, pend, cont, ctx, conn, sigNil, sigQ, resQ, wg, notif>>) /\ U(StepLocal)
ExecCloseSig == /\ exec = "returned" /\ sigNil' = TRUE /\ exec' = "sigclosed"
                /\ U(<<stage, state, prevStage, pend, cont, ctx, conn, execRes, sigQ, resQ, wg, notif, plugin>>) /\ U(StepLocal)
ExecPublish == /\ exec = "sigclosed" /\ resQ' = Append(resQ, execRes) /\ exec' = "published"
               /\ U(<<stage, state, prevStage, pend, cont, ctx, conn, execRes, sigNil, sigQ, wg, notif, plugin>>) /\ U(StepLocal)
ExecDone == /\ exec = "published" /\ wg' = wg - 1 /\ exec' = "done"
            /\ U(<<stage, state, prevStage, pend, cont, ctx, conn, execRes, sigNil, sigQ, resQ, notif, plugin>>) /\ U(StepLocal)

----------------------------------------------------------------------------
\* Environment: ProvideStageInput, Close, ForceClose
CanProv(k) == nProv[k] < MaxProvide
Prov(k) == nProv' = [nProv EXCEPT ![k] = @ + 1]
StepVars == <<prevStage, pend, cont, conn, exec, execRes, sigNil, resQ, wg, notif, plugin, closedFlag, cpc>>

ProvideDeploy == /\ CanProv("D") /\ Prov("D")
                 /\ IF availD THEN refused' = refused + 1 /\ U(<<availD, slotD, state>>)
                    ELSE /\ availD' = TRUE /\ slotD' = 1 /\ U(refused)
                         /\ state' = IF state = "waiting_for_input" /\ stage = "deploy" THEN "running" ELSE state
                 /\ U(<<stage, slotE, slotR, availE, availR, ctx, cancelledFlag, sigQ>>) /\ U(StepVars)
ProvideEnabling == /\ CanProv("E") /\ Prov("E")
                   /\ IF availE THEN refused' = refused + 1 /\ U(<<availE, slotE, state>>)
                      ELSE /\ availE' = TRUE /\ (\E v \in {"T", "F"} : slotE' = v) /\ U(refused)
                           /\ state' = IF state = "waiting_for_input" /\ stage = "enabling" THEN "running" ELSE state
                   /\ U(<<stage, slotD, slotR, availD, availR, ctx, cancelledFlag, sigQ>>) /\ U(StepVars)
ProvideStarting == /\ CanProv("R") /\ Prov("R")
                   /\ IF availR THEN refused' = refused + 1 /\ U(<<availR, slotR, state>>)
                      ELSE /\ availR' = TRUE /\ slotR' = 1 /\ U(refused)
                           /\ state' = IF state = "waiting_for_input" /\ stage = "starting" THEN "running" ELSE state
                   /\ U(<<stage, slotD, slotE, availD, availE, ctx, cancelledFlag, sigQ>>) /\ U(StepVars)
ProvideCancelled == /\ HasHandler /\ CanProv("C") /\ Prov("C")
                    /\ cancelledFlag' = TRUE /\ ctx' = TRUE
                    /\ sigQ' = IF stage = "running" /\ ~sigNil THEN sigQ + 1 ELSE sigQ
                    /\ U(<<stage, state, slotD, slotE, slotR, availD, availE, availR, refused>>) /\ U(StepVars)

CloseSwap(c) == /\ cpc[c] = "idle"
                /\ cpc' = [cpc EXCEPT ![c] = IF closedFlag THEN "wait" ELSE "cancel"]
                /\ closedFlag' = TRUE
                /\ U(<<stage, state, prevStage, pend, cont, slotD, slotE, slotR, availD, availE, availR, nProv, ctx,
                       cancelledFlag, conn, exec, execRes, sigNil, sigQ, resQ, wg, notif, refused, plugin>>)
CloseCancel(c) == /\ cpc[c] = "cancel" /\ ctx' = TRUE /\ cpc' = [cpc EXCEPT ![c] = "wait"]
                  /\ U(<<stage, state, prevStage, pend, cont, slotD, slotE, slotR, availD, availE, availR, nProv,
                         cancelledFlag, closedFlag, conn, exec, execRes, sigNil, sigQ, resQ, wg, notif, refused, plugin>>)
CloseWait(c) == /\ cpc[c] = "wait" /\ wg = 0 /\ cpc' = [cpc EXCEPT ![c] = "ret"]
                /\ U(<<stage, state, prevStage, pend, cont, slotD, slotE, slotR, availD, availE, availR, nProv, ctx,
                       cancelledFlag, closedFlag, conn, exec, execRes, sigNil, sigQ, resQ, wg, notif, refused, plugin>>)

StepNext == StepMicro \/ TryD \/ AwaitD \/ Deploy \/ PostDeploy \/ AwaitE \/ TryR \/ AwaitR \/ ReadSchema
            \/ AwaitRes \/ CancelSend \/ AwaitResCancel \/ DeferClose \/ Exit
ExecNext == PluginStart \/ ExecNeverReached \/ PluginReturn \/ PluginCancelled \/ ExecAbort \/ ExecCloseSig \/ ExecPublish \/ ExecDone
EnvNext == ProvideDeploy \/ ProvideEnabling \/ ProvideStarting \/ ProvideCancelled
           \/ \E c \in Closers : CloseSwap(c) \/ CloseCancel(c) \/ CloseWait(c)
Next == StepNext \/ ExecNext \/ EnvNext
Spec == Init /\ [][Next]_vars
FairSpec == Spec /\ WF_vars(StepNext) /\ WF_vars(ExecNext)
            /\ \A c \in Closers : WF_vars(CloseCancel(c)) /\ WF_vars(CloseWait(c))

----------------------------------------------------------------------------
\* C12 properties over the notification history
Stages == {"deploy", "deploy_failed", "enabling", "starting", "running", "cancelled", "disabled", "outputs", "crashed", "closed"}
Declared(st) == CASE st = "deploy_failed" -> {"error"} [] st = "enabling" -> {"resolved"} [] st = "starting" -> {"started"}
                  [] st = "disabled" -> {"output"} [] st = "crashed" -> {"error"} [] st = "closed" -> {"result"}
                  [] st = "outputs" -> {"success", "alt", "error", "cancelled_early"} [] OTHER -> {}
Idx == DOMAIN notif
Finished(st) == {i \in Idx : notif[i].k \in {"SC", "CO"} /\ notif[i].prev = st}
Impossible(st) == {i \in Idx : notif[i].k = "F" /\ notif[i].stage = st}
Completions == {i \in Idx : notif[i].k = "CO"}

FinishedAtMostOnce == \A st \in Stages : Cardinality(Finished(st)) <= 1
NotBoth == \A st \in Stages : Finished(st) = {} \/ Impossible(st) = {}
OutputsDeclared == \A i \in Idx : notif[i].k \in {"SC", "CO"} /\ notif[i].out # Nil => notif[i].out \in Declared(notif[i].prev)
AtMostOneCompletion == Cardinality(Completions) <= 1
CompletionIsLastFinish == \A i \in Completions : \A j \in Idx : j > i => notif[j].k = "F"
DoneMeansFinished == cont = "done" => state = "finished" /\ Cardinality(Completions) = 1
NoNotifAfterCloseReturn == \A c \in Closers : cpc[c] = "ret" => (pend = <<>> /\ cont = "done")
ConnClosedAtDone == cont = "done" => conn \in {"none", "closed"}
TypeOK == wg \in 0..2 /\ sigQ \in 0..(2 + MaxProvide) /\ Len(resQ) <= 1
CloseReturns == \A c \in Closers : cpc[c] \in {"cancel", "wait"} ~> cpc[c] = "ret"
=========================================================================
