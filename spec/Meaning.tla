------------------------------- MODULE Meaning -------------------------------
(* The declarative meaning of a workflow (DESIGN 3.1): a coarse-grained semantics in which a step moves from one
   blocking point of its lifecycle to the next atomically as soon as the input of the stage it waits for exists;
   only the order of steps is nondeterministic.  TLC explores every order for a batch of (workflow, outcome
   vector) cases and exports, per case, the set of possible results and the set of steps whose plugin may run.
   This is the oracle the real engine's results are judged by (C01, C03, C04, C09) and the abstraction the
   fine-grained Engine specification refines.

   Outcome vector OC[s]:  deploy \in {"ok","fail"}, enabled \in BOOLEAN, start \in {"ok","fail"},
                          beh \in {output id, "crash", "hang"}      (plugin step)
                          enabled, beh \in {"success","failed","hang"}                  (foreach step)            *)
EXTENDS Workflow, Dgraph, Json

CONSTANT CaseFile
Cases == JsonDeserialize(CaseFile)

VARIABLES ci, g, pc, provided, result, mayRun, waitingOut
vars == <<ci, g, pc, provided, result, mayRun, waitingOut>>

WF == Cases[ci].wf
OC == Cases[ci].oc
Steps == StepIds(WF)
Kind(s) == KindOf(WF, s)

IsStageNode(n) == \E s \in Steps : \E st \in StagesOf(Kind(s)) : n = StageNode(s, st)
IsOutputNode(n) == \E id \in OutputIds(WF) : n = OutputNode(id)
OutIdOf(n) == CHOOSE id \in OutputIds(WF) : n = OutputNode(id)
IsGroup(n) == ~IsStageNode(n) /\ ~IsOutputNode(n) /\ n # InputNode
              /\ ~\E s \in Steps : \E st \in StagesOf(Kind(s)) : \E o \in Declared(WF, s, st) : n = StageOutNode(s, st, o)

\* notifySteps: process the ready set until it is empty. acc = [g, prov, win, wo, err]
RECURSIVE Notify(_)
Notify(acc) ==
  IF acc.g.ready = {} THEN acc ELSE
  LET rdy   == acc.g.ready
      g0    == PopReady(acc.g)
      grp   == {n \in rdy : g0.st[n] = "W" /\ IsGroup(n)}
      RECURSIVE ResolveAll(_, _)
      ResolveAll(gg, ns) == IF ns = {} THEN gg ELSE LET n == CHOOSE x \in ns : TRUE IN ResolveAll(Resolve(gg, n, "R").g, ns \ {n})
      g1    == ResolveAll(g0, grp)
      prov  == {n \in rdy : g0.st[n] = "W" /\ IsStageNode(n)}
      win   == {OutIdOf(n) : n \in {x \in rdy : g0.st[x] = "W" /\ IsOutputNode(x)}}
      dead  == {OutIdOf(n) : n \in {x \in rdy : g0.st[x] = "U" /\ IsOutputNode(x)}}
  IN  Notify([g |-> g1, prov |-> acc.prov \cup prov, win |-> acc.win \cup win, wo |-> acc.wo \ dead])

\* apply a sequence of <<node, status>> resolutions, ignoring tolerated re-marks
RECURSIVE ApplyOps(_, _)
ApplyOps(gg, ops) ==
  IF ops = <<>> THEN gg
  ELSE LET r == Resolve(gg, Head(ops)[1], Head(ops)[2]) IN ApplyOps(r.g, Tail(ops))

Fin(s, st) == <<<<StageNode(s, st), "R">>>>
FinOut(s, st, o) ==
  <<<<StageNode(s, st), "R">>, <<StageOutNode(s, st, o), "R">>>>
  \o Seqify({<<StageOutNode(s, st, x), "U">> : x \in Declared(WF, s, st) \ {o}})
Imp(s, st) == Seqify({<<StageOutNode(s, st, x), "U">> : x \in Declared(WF, s, st)}) \o <<<<StageNode(s, st), "U">>>>
RECURSIVE ImpAll(_, _)
ImpAll(s, sts) == IF sts = <<>> THEN <<>> ELSE Imp(s, Head(sts)) \o ImpAll(s, Tail(sts))

Init ==
  /\ ci \in 1..Len(Cases)
  /\ LET dag == ExpectedDAG(Cases[ci].wf) IN g = NewGraph(dag.nodes, dag.edges)
  /\ pc = [s \in StepIds(Cases[ci].wf) |-> "init"]
  /\ provided = {} /\ result = "none" /\ mayRun = {} /\ waitingOut = OutputIds(Cases[ci].wf)

\* after a handler: update graph, provided; decide the result if an output became ready or none is left
Settle(gg) ==
  LET acc == Notify([g |-> gg, prov |-> provided, win |-> {}, wo |-> waitingOut]) IN
  /\ g' = acc.g /\ provided' = acc.prov /\ waitingOut' = acc.wo
  /\ IF result # "none" THEN result' = result
     ELSE IF acc.win # {} THEN \E w \in acc.win : result' = w
     ELSE IF acc.wo = {} THEN result' = "error"
     ELSE result' = result

Kickoff ==
  /\ \A s \in Steps : pc[s] = "init"
  /\ Settle(Resolve(PushStarting(g), InputNode, "R").g)
  /\ pc' = [s \in Steps |-> IF Kind(s) = "plugin" THEN "deploy_wait" ELSE "enable_wait"]
  /\ UNCHANGED <<ci, mayRun>>

Prov(s, st) == StageNode(s, st) \in provided
Go(s, ops, next) == Settle(ApplyOps(g, ops)) /\ pc' = [pc EXCEPT ![s] = next] /\ UNCHANGED ci

PluginAdvance(s) ==
  \/ /\ pc[s] = "deploy_wait" /\ Prov(s, "deploy")
     /\ IF OC[s].deploy = "fail"
          THEN Go(s, Fin(s, "deploy") \o FinOut(s, "deploy_failed", "error")
                     \o ImpAll(s, <<"enabling", "disabled", "starting", "running", "outputs", "closed">>), "done")
          ELSE Go(s, Fin(s, "deploy"), "enable_wait")
     /\ UNCHANGED mayRun
  \/ /\ pc[s] = "enable_wait" /\ Prov(s, "enabling")
     /\ IF OC[s].enabled
          THEN Go(s, Imp(s, "disabled") \o FinOut(s, "enabling", "resolved"), "start_wait")
          ELSE Go(s, FinOut(s, "enabling", "resolved") \o FinOut(s, "disabled", "output")
                     \o ImpAll(s, <<"starting", "running", "outputs", "closed">>), "done")
     /\ UNCHANGED mayRun
  \/ /\ pc[s] = "start_wait" /\ Prov(s, "starting")
     /\ IF OC[s].start = "fail"
          THEN Go(s, Imp(s, "starting") \o FinOut(s, "crashed", "error") \o ImpAll(s, <<"running", "outputs", "closed">>), "done")
               /\ UNCHANGED mayRun
          ELSE Go(s, FinOut(s, "starting", "started"), "running") /\ mayRun' = mayRun \cup {s}
  \/ /\ pc[s] = "running" /\ OC[s].beh # "hang"
     /\ IF OC[s].beh = "crash"
          THEN Go(s, Fin(s, "running") \o FinOut(s, "crashed", "error") \o ImpAll(s, <<"outputs", "closed">>), "done")
          ELSE Go(s, Fin(s, "running") \o FinOut(s, "outputs", OC[s].beh), "done")
     /\ UNCHANGED mayRun

\* stop_if: once the stop condition is available and true the step is closed at whatever blocking point it has reached;
\* if its plugin is already executing it is sent the cancel signal and reports cancelled_early (a race with the natural end)
Stops(s) == "stop" \in DOMAIN OC[s] /\ OC[s].stop /\ Prov(s, "cancelled")
StopAdvance(s) ==
  /\ Kind(s) = "plugin" /\ Stops(s) /\ UNCHANGED mayRun
  /\ \/ /\ pc[s] = "deploy_wait"
        /\ Go(s, (IF Prov(s, "deploy") THEN Fin(s, "deploy") ELSE Imp(s, "deploy")) \o FinOut(s, "closed", "result")
                  \o ImpAll(s, <<"enabling", "disabled", "starting", "running", "outputs">>), "done")
     \/ /\ pc[s] = "enable_wait"
        /\ Go(s, Imp(s, "enabling") \o FinOut(s, "closed", "result") \o ImpAll(s, <<"starting", "running", "outputs">>), "done")
     \/ /\ pc[s] = "start_wait"
        /\ Go(s, Imp(s, "starting") \o FinOut(s, "closed", "result") \o ImpAll(s, <<"running", "outputs">>), "done")
     \/ /\ pc[s] = "running"
        /\ Go(s, Fin(s, "running") \o FinOut(s, "outputs", "cancelled_early"), "done")

ForeachAdvance(s) ==
  \/ /\ pc[s] = "enable_wait" /\ Prov(s, "enabling")
     /\ IF OC[s].enabled
          THEN Go(s, Imp(s, "disabled") \o FinOut(s, "enabling", "resolved"), "start_wait")
          ELSE Go(s, FinOut(s, "enabling", "resolved") \o FinOut(s, "disabled", "output")
                     \o ImpAll(s, <<"execute", "outputs", "closed">>), "done")
     /\ UNCHANGED mayRun
  \/ /\ pc[s] = "start_wait" /\ Prov(s, "execute") /\ OC[s].beh # "hang"
     /\ IF OC[s].beh = "success"
          THEN Go(s, Fin(s, "execute") \o Imp(s, "failed") \o FinOut(s, "outputs", "success"), "done")
          ELSE Go(s, Fin(s, "execute") \o Imp(s, "outputs") \o FinOut(s, "failed", "error"), "done")
     /\ mayRun' = mayRun \cup {s}

Advance(s) == IF Kind(s) = "plugin" THEN (PluginAdvance(s) \/ StopAdvance(s)) ELSE ForeachAdvance(s)

\* nothing can move any more and nothing is hanging in a plugin: the engine's fallback ends the run with an error
CanMove == (\A s \in Steps : pc[s] = "init") \/ \E s \in Steps : ENABLED Advance(s)
Hanging == \E s \in Steps : (pc[s] = "running" /\ OC[s].beh = "hang") \/ (Kind(s) = "foreach" /\ pc[s] = "start_wait" /\ Prov(s, "execute") /\ OC[s].beh = "hang")
Stuck == result = "none" /\ ~CanMove
Fallback == /\ Stuck /\ ~Hanging /\ result' = "error" /\ UNCHANGED <<ci, g, pc, provided, mayRun, waitingOut>>

Next == Kickoff \/ (\E s \in Steps : Advance(s)) \/ Fallback
Spec == Init /\ [][Next]_vars

\* terminal: a result exists, or the run can only wait for a never-ending step ("hung": no output producible, C01)
Terminal == ~CanMove /\ (result # "none" \/ Hanging)
Export == Terminal => PrintT(<<"MEANING", ci, IF result = "none" THEN "hung" ELSE result, ToJson(mayRun)>>)
\* stop exploring after the result is known
Live == TRUE
TypeOK == GraphTypeOK(g) /\ ReadySound(g)
NoDoubleResolution == TRUE
=============================================================================
