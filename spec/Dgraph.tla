------------------------------- MODULE Dgraph -------------------------------
(* The dependency graph library go.arcalot.io/dgraph (dg.go) as pure operators over a graph value.

   A graph value g is a record
     st    : Node -> {"W","R","U"}            resolution status (waiting / resolved / unresolvable)
     od    : Edge -> type \cup {NONE}          outstanding dependencies; Edge = <<m, n>> meaning "m depends on n"
     rd    : Edge -> type \cup {NONE}          resolved dependencies (recorded with the type they had when resolved)
     ready : SUBSET Node                       the readyForProcessing set
   Dependency types: "and", "or", "cand" (completion-and), "opt" (optional), "obv" (obviated).
   The edge set is DOMAIN g.od (sparse), the node set DOMAIN g.st.

   Faithful to the library in the points the engine's properties depend on:
     * an unresolvable AND dependency (or the last OR) makes the dependant ready AND unresolvable, recursively;
     * an already unresolvable node is re-queued in `ready` for every further failing hard dependency;
     * completion-and treats "unresolvable" like "resolved"; optional/obviated never make a node ready;
     * becoming ready obviates outstanding optional dependencies; a resolved OR obviates the other ORs;
     * resolving a resolved node, or resolving an unresolvable node as resolved, is the error AlreadySet;
       re-marking an unresolvable node unresolvable is tolerated and does nothing.                              *)
EXTENDS Naturals, FiniteSets, Sequences

AND == "and"  OR == "or"  CAND == "cand"  OPT == "opt"  OBV == "obv"  NONE == "-"
Hard(t) == t \in {AND, OR, CAND}

NodesOf(g) == DOMAIN g.st
EdgesOf(g) == DOMAIN g.od
DepsOf(g, m) == {e[2] : e \in {x \in EdgesOf(g) : x[1] = m}}
OutOf(g, n)  == {e[1] : e \in {x \in EdgesOf(g) : x[2] = n}}

\* edges: a set of triples <<m, n, type>>
NewGraph(Node, Edges) ==
  LET E == {<<e[1], e[2]>> : e \in Edges}
      T(m, n) == (CHOOSE e \in Edges : e[1] = m /\ e[2] = n)[3]
  IN [ st |-> [n \in Node |-> "W"],
       od |-> [e \in E |-> T(e[1], e[2])],
       rd |-> [e \in E |-> NONE],
       ready |-> {} ]

HasOutT(g, m, t) == \E n \in DepsOf(g, m) : g.od[<<m, n>>] = t

PushStarting(g) ==
  [g EXCEPT !.ready = @ \cup {m \in NodesOf(g) : \A n \in DepsOf(g, m) : ~Hard(g.od[<<m, n>>])}]
PopReady(g) == [g EXCEPT !.ready = {}]

Obviate(g, m, t) ==
  [g EXCEPT !.od = [e \in EdgesOf(g) |-> IF e[1] = m /\ g.od[e] = t THEN OBV ELSE g.od[e]]]
MarkReady(g, m) == [Obviate(g, m, OPT) EXCEPT !.ready = @ \cup {m}]

\* node m is told that its dependency n got status s; more = TRUE iff m must now be resolved as unresolvable
DepResolved(g, m, n, s) ==
  LET t  == g.od[<<m, n>>]
      g1 == [g EXCEPT !.od[<<m, n>>] = NONE, !.rd[<<m, n>>] = IF s = "R" THEN t ELSE @]
  IN  IF ~Hard(t) THEN [g |-> g1, more |-> FALSE]
      ELSE IF s = "U" /\ t # CAND
        THEN IF t = AND \/ ~HasOutT(g1, m, OR)
               THEN [g |-> MarkReady(g1, m), more |-> TRUE]
               ELSE [g |-> g1, more |-> FALSE]
        ELSE LET g2     == IF t = OR THEN Obviate(g1, m, OR) ELSE g1
                 hasOr  == IF t = OR THEN FALSE ELSE HasOutT(g2, m, OR)
                 hasAnd == HasOutT(g2, m, AND) \/ HasOutT(g2, m, CAND)
             IN  IF hasAnd \/ hasOr THEN [g |-> g2, more |-> FALSE]
                                    ELSE [g |-> MarkReady(g2, m), more |-> FALSE]

\* a set as a sequence in some fixed order (propagation is order-confluent when no error occurs; prototype P1)
RECURSIVE Seqify(_)
Seqify(S) == IF S = {} THEN <<>> ELSE LET x == CHOOSE y \in S : TRUE IN <<x>> \o Seqify(S \ {x})

RECURSIVE Resolve(_, _, _)
RECURSIVE VisitOut(_, _, _, _)
\* result: [g, err]; err = "" or "AlreadySet"
Resolve(g, n, s) ==
  IF g.st[n] # "W"
    THEN IF g.st[n] = "R" \/ s # "U" THEN [g |-> g, err |-> "AlreadySet"] ELSE [g |-> g, err |-> ""]
    ELSE VisitOut([g EXCEPT !.st[n] = s], n, s, Seqify({m \in OutOf(g, n) : g.od[<<m, n>>] # NONE}))
VisitOut(g, n, s, todo) ==
  IF todo = <<>> THEN [g |-> g, err |-> ""]
  ELSE LET m  == Head(todo)
           r  == DepResolved(g, m, n, s)
           r2 == IF r.more THEN Resolve(r.g, m, "U") ELSE [g |-> r.g, err |-> ""]
       IN  IF r2.err # "" THEN r2 ELSE VisitOut(r2.g, n, s, Tail(todo))

\* Sanity properties of graph values used as invariants by the specifications that embed a graph
GraphTypeOK(g) ==
  /\ \A n \in NodesOf(g) : g.st[n] \in {"W", "R", "U"}
  /\ \A e \in EdgesOf(g) : g.od[e] \in {AND, OR, CAND, OPT, OBV, NONE} /\ g.rd[e] \in {AND, OR, CAND, OPT, OBV, NONE}
  /\ g.ready \subseteq NodesOf(g)
\* a waiting node in `ready` has no outstanding hard dependency
ReadySound(g) == \A m \in g.ready : g.st[m] = "W" => \A n \in DepsOf(g, m) : ~Hard(g.od[<<m, n>>])
\* a dependency is either outstanding or was consumed
ConsumedIffDecided(g) == \A e \in EdgesOf(g) : g.od[e] = NONE => g.st[e[2]] # "W"
=============================================================================
