-------------------------- MODULE ForeachCounters --------------------------
(* Counter abstraction of the item pool of a loop step (ForeachStep.tla: Acquire / Abort / Finish / Collect / Close),
   for ANY number of items and ANY parallelism: the items are anonymous, only how many are queued, running, finished
   well, finished with an error, or aborted is kept.  ForeachStep.tla refines it (checked by TLC for N <= 4 through the
   refinement mapping at the end of ForeachStep.tla's companion cfg); the inductive invariant IndInv is discharged by
   Apalache for unbounded N and Par:
       apalache-mc check --cinit=ConstInit --init=Init    --inv=IndInv --length=0 ForeachCounters.tla
       apalache-mc check --cinit=ConstInit --init=IndInit --inv=IndInv --length=1 ForeachCounters.tla
       apalache-mc check --cinit=ConstInit --init=IndInit --inv=Safety --length=0 ForeachCounters.tla
   (with --cinit=ConstInitBeforeRepair the second obligation fails: non-vacuity)
   Safety is the design-level content of C13 that does not depend on the size of the loop: never more items running
   than the parallelism, success only when every item finished well, failure only when some item did not.        *)
EXTENDS Integers

CONSTANTS
  \* @type: Int;
  N,
  \* @type: Int;
  Par,
  \* @type: Bool;
  AbortedCountAsFailed    \* TRUE: the repaired engine (503c7f3); FALSE: before it (IndInv / Safety are then violated)

VARIABLES
  \* @type: Int;
  q,
  \* @type: Int;
  r,
  \* @type: Int;
  ok,
  \* @type: Int;
  err,
  \* @type: Int;
  ab,
  \* @type: Int;
  sem,
  \* @type: Bool;
  ctx,
  \* @type: Str;
  phase,
  \* @type: Str;
  outcome

vars == <<q, r, ok, err, ab, sem, ctx, phase, outcome>>

ConstInit == N \in Nat /\ Par \in Nat /\ Par >= 1 /\ AbortedCountAsFailed = TRUE
ConstInitBeforeRepair == N \in Nat /\ Par \in Nat /\ Par >= 1 /\ AbortedCountAsFailed = FALSE

Init == /\ q = N /\ r = 0 /\ ok = 0 /\ err = 0 /\ ab = 0 /\ sem = 0 /\ ctx = FALSE
        /\ phase = "executing" /\ outcome = "none"

Acquire == /\ phase = "executing" /\ q > 0 /\ sem < Par
           /\ q' = q - 1 /\ r' = r + 1 /\ sem' = sem + 1
           /\ UNCHANGED <<ok, err, ab, ctx, phase, outcome>>
Abort == /\ phase = "executing" /\ q > 0 /\ ctx
         /\ q' = q - 1 /\ ab' = ab + 1
         /\ UNCHANGED <<r, ok, err, sem, ctx, phase, outcome>>
FinishOk == /\ phase = "executing" /\ r > 0 /\ ~ctx
            /\ r' = r - 1 /\ ok' = ok + 1 /\ sem' = sem - 1
            /\ UNCHANGED <<q, err, ab, ctx, phase, outcome>>
FinishErr == /\ phase = "executing" /\ r > 0
             /\ r' = r - 1 /\ err' = err + 1 /\ sem' = sem - 1
             /\ UNCHANGED <<q, ok, ab, ctx, phase, outcome>>
\* every item has a result or was aborted; an aborted item counts as failed (engine repair 503c7f3)
Collect == /\ phase = "executing" /\ q = 0 /\ r = 0
           /\ phase' = "collected"
           /\ outcome' = IF err + (IF AbortedCountAsFailed THEN ab ELSE 0) = 0 THEN "success" ELSE "error"
           /\ UNCHANGED <<q, r, ok, err, ab, sem, ctx>>
Close == /\ ~ctx /\ ctx' = TRUE /\ UNCHANGED <<q, r, ok, err, ab, sem, phase, outcome>>

Next == Acquire \/ Abort \/ FinishOk \/ FinishErr \/ Collect \/ Close
Spec == Init /\ [][Next]_vars

TypeOK == /\ q \in Nat /\ r \in Nat /\ ok \in Nat /\ err \in Nat /\ ab \in Nat /\ sem \in Nat
          /\ ctx \in BOOLEAN /\ phase \in {"executing", "collected"} /\ outcome \in {"none", "success", "error"}

IndInv == /\ TypeOK
          /\ q + r + ok + err + ab = N
          /\ sem = r /\ r <= Par
          /\ (ab > 0 => ctx)
          /\ (phase = "executing" => outcome = "none")
          /\ (phase = "collected" => (q = 0 /\ r = 0 /\ outcome # "none"))
          /\ (outcome = "success" => (err = 0 /\ ab = 0))
          /\ (outcome = "error" => err + ab > 0)
IndInit == IndInv

Safety == /\ r <= Par                                     \* never more items running than the parallelism allows
          /\ (outcome = "success" => ok = N)              \* success only if EVERY item finished well: no holes
          /\ (outcome = "error" => ok < N)                \* failure only if some item did not
          /\ (outcome # "none" => r = 0)                  \* nothing is still running when the loop reports
=============================================================================
