------------------------------ MODULE Builtins ------------------------------
(* The built-in expression functions (internal/builtinfunctions/functions.go) as a case table (C18): for each
   function the partition of every declared parameter domain into classes and, per class tuple, the class of result
   the function's documentation and the listed laws require.  TLC enumerates every (function, class tuple); each is
   then exercised on the real function with boundary and seeded random representatives of the classes.
   Result tags:  error | maxint | minint | trunc | same | zero | float-nearest | decimal | fmt-f-roundtrip |
                 formatted | boolname | parsed-int | parsed-float | parsed-bool | ceil | floor | round | abs |
                 lower | upper | split | default-or-env | bound | value-or-error                                    *)
EXTENDS Naturals, Sequences, FiniteSets, TLC
FloatC == {"nan", "pinf", "ninf", "above", "below", "posfrac", "negfrac", "posint", "negint", "zero", "negzero", "tiny", "huge53", "half"}
IntC   == {"min", "negone", "zero", "one", "max", "big53", "small"}
StrC   == {"empty", "ascii", "upper", "nonascii", "spaces", "sepheavy"}
IntStrC == {"numeric", "negnumeric", "zeroprefixed", "overflow", "negoverflow"}
FloatStrC == {"numeric", "negnumeric", "decimal", "exponent", "hexfloat", "nanlike", "inflike", "empty", "ascii", "underscored"}
BoolStrC == {"true", "false", "t", "f", "one", "zero", "mixedcase"}
BoolC  == {"t", "f"}
FmtC   == {"b", "e", "E", "f", "g", "G", "x", "X"}
PrecC  == {"m1", "p0", "p1", "p15"}
ListC  == {"empty", "ints", "strings", "nested", "mixed", "long"}
AnyC   == {"int", "str", "map", "list", "bool"}
EnvC   == {"set", "setempty", "unset", "emptyname"}   \* "setempty": the variable exists and its value is the empty string
PathC  == {"missing", "directory", "emptypath"}

Functions == {"intToFloat", "floatToInt", "intToString", "floatToString", "floatToFormattedString", "boolToString",
              "stringToInt", "stringToFloat", "stringToBool", "ceil", "floor", "round", "abs", "toLower", "toUpper",
              "splitString", "readFile", "getEnvVar", "bindConstants"}
Params(f) ==
  CASE f = "intToFloat" -> <<IntC>>          [] f = "floatToInt" -> <<FloatC>>        [] f = "intToString" -> <<IntC>>
    [] f = "floatToString" -> <<FloatC>>     [] f = "floatToFormattedString" -> <<FloatC, FmtC, PrecC>>
    [] f = "boolToString" -> <<BoolC>>       [] f = "stringToInt" -> <<IntStrC>>      [] f = "stringToFloat" -> <<FloatStrC>>
    [] f = "stringToBool" -> <<BoolStrC>>    [] f \in {"ceil", "floor", "round", "abs"} -> <<FloatC>>
    [] f \in {"toLower", "toUpper"} -> <<StrC>>  [] f = "splitString" -> <<StrC, StrC>>
    [] f = "readFile" -> <<PathC>>           [] f = "getEnvVar" -> <<EnvC, StrC>>     [] f = "bindConstants" -> <<ListC, AnyC>>
Tuples(f) == LET p == Params(f) IN
  IF Len(p) = 1 THEN {<<a>> : a \in p[1]}
  ELSE IF Len(p) = 2 THEN {<<a, b>> : a \in p[1], b \in p[2]}
  ELSE {<<a, b, c>> : a \in p[1], b \in p[2], c \in p[3]}
Expect(f, t) ==
  CASE f = "intToFloat" -> "float-nearest"
    [] f = "floatToInt" ->
         (CASE t[1] = "nan" -> "error"
            [] t[1] \in {"pinf", "above"} -> "maxint"      \* saturates
            [] t[1] \in {"ninf", "below"} -> "minint"
            [] t[1] \in {"posfrac", "negfrac", "tiny", "half"} -> "trunc"
            [] t[1] \in {"zero", "negzero"} -> "zero"
            [] OTHER -> "same")
    [] f = "intToString" -> "decimal"
    [] f = "floatToString" -> "fmt-f-roundtrip"
    [] f = "floatToFormattedString" -> "formatted"
    [] f = "boolToString" -> "boolname"
    [] f = "stringToInt" -> IF t[1] \in {"overflow", "negoverflow"} THEN "error" ELSE "parsed-int"
    [] f = "stringToFloat" -> IF t[1] \in {"empty", "ascii"} THEN "error" ELSE IF t[1] = "underscored" THEN "value-or-error" ELSE "parsed-float"
    [] f = "stringToBool" -> "parsed-bool"
    [] f = "ceil" -> "ceil" [] f = "floor" -> "floor" [] f = "round" -> "round" [] f = "abs" -> "abs"
    [] f = "toLower" -> "lower" [] f = "toUpper" -> "upper"
    [] f = "splitString" -> "split"
    [] f = "readFile" -> "error"
    [] f = "getEnvVar" -> "default-or-env"
    [] f = "bindConstants" -> "bound"
VARIABLE todo
Init == todo = UNION {{<<f, t>> : t \in Tuples(f)} : f \in Functions}
Next == todo # {} /\ LET c == CHOOSE x \in todo : TRUE IN PrintT(<<"BUILTIN", c[1], c[2], Expect(c[1], c[2])>>) /\ todo' = todo \ {c}
Spec == Init /\ [][Next]_todo
\* totality of the table: every function has parameters and every tuple an expectation
ASSUME \A f \in Functions : Tuples(f) # {} /\ \A t \in Tuples(f) : Expect(f, t) \in
   {"error", "maxint", "minint", "trunc", "same", "zero", "float-nearest", "decimal", "fmt-f-roundtrip", "formatted", "boolname",
    "parsed-int", "parsed-float", "parsed-bool", "ceil", "floor", "round", "abs", "lower", "upper", "split", "default-or-env", "bound", "value-or-error"}
=============================================================================
