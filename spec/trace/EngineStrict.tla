--------------------------- MODULE EngineStrict ---------------------------
(* Strict-mode trace validation of the run loop: a recorded execution of the real engine (projected by lib/strict.py
   onto the events Engine.tla's actions are witnessed by) must be a behaviour of Engine.tla in split-handler mode.
   One recorded event = one Engine action constrained by the logged fields; actions the hooks do not witness are
   silent steps inferred by TLC (depth-first queue; acceptance = the whole trace was consumed on some path).
   Grain-of-atomicity resolutions are named actions (TryDMissLate, TryRMissLate, stutters).                          *)
EXTENDS Engine, Json
CONSTANT TraceFile, CustomFile,
         SilentCancel      \* TRUE for runs started by a loop step: their caller (the loop) cancels without a recorded event
Tr == JsonDeserialize(TraceFile)
\* the workflow of a generated case (Family = "custom"): cfg line  Custom <- CustomDef
CustomDef == JsonDeserialize(CustomFile)
VARIABLES l,          \* next event
          fillAfter   \* <<step, stage>> whose slot was filled after the step goroutine's last own event
tvars == <<vars, l, fillAfter>>

Ev == Tr[l]
Is(k) == l <= Len(Tr) /\ Tr[l].k = k
Consume == l' = l + 1
NotMine(s) == {x \in fillAfter : x[1] # s}
StepEv(s) == fillAfter' = NotMine(s)            \* an event of step s's own goroutine
OtherEv == fillAfter' = fillAfter
Free(s) == ~Busy(<<"step", s>>)
OutOf3(x) == IF x = "nil" THEN Nil ELSE x

TInit == Init /\ l = 1 /\ fillAfter = {} /\ TLCSet(1, 1)

\* ---- step state updates ------------------------------------------------------------------------------------------
T_Set == /\ Is("Set") /\ Consume
         /\ LET s == Ev.s IN
              /\ s \in Steps /\ Free(s) /\ pend[s] # <<>> /\ Head(pend[s]).op \in {"Set", "SetFF", "SetA", "SetW", "SetSt"}
              /\ StepMicro(s) /\ stage'[s] = Ev.stage /\ state'[s] = Ev.state /\ StepEv(s)
\* a reader (the detector's countStates) saw this state: it must be the model's
\* countStates read this step's state during a deadlock check (or someone else asked for it: a stutter); the value
\* read must be the model's
T_Read == /\ Is("Read") /\ Consume /\ OtherEv
          /\ Ev.s \in Steps /\ state[Ev.s] = Ev.state
          /\ IF Checking /\ hq.seen[Ev.s] = "unread" THEN HRead(Ev.s) ELSE UNCHANGED vars

\* ---- handlers ----------------------------------------------------------------------------------------------------
T_HB_K == /\ Is("HB") /\ Ev.who = "K" /\ Consume /\ ~Busy(<<"main">>) /\ MainKickoff /\ OtherEv
T_HB_S == /\ Is("HB") /\ Ev.who = "S" /\ Consume
          /\ LET s == Ev.s IN
               /\ s \in Steps /\ Free(s) /\ pend[s] # <<>>
               /\ LET m == Head(pend[s]) IN
                    \/ m.op = "SC0" /\ Ev.prev = "nil"
                    \/ m.op = "SC" /\ Ev.prev = prevStage[s] /\ m.out = OutOf3(Ev.out)
                    \/ m.op = "CO" /\ Ev.prev = stage[s] /\ m.out = OutOf3(Ev.out)
               /\ StepMicro(s)
               /\ fillAfter' = NotMine(s) \cup (IF Head(pend[s]).op = "SC0" THEN {<<"sc0", s>>} ELSE {})
T_HB_F == /\ Is("HB") /\ Ev.who = "F" /\ Consume
          /\ LET s == Ev.s IN
               /\ s \in Steps /\ Free(s) /\ pend[s] # <<>> /\ Head(pend[s]).op = "F"
               /\ (IF Head(pend[s]).stage = "$prev" THEN prevStage[s] ELSE Head(pend[s]).stage) = Ev.stage
               /\ StepMicro(s) /\ StepEv(s)
T_Prov == /\ Is("Prov") /\ Consume /\ HProvide(Ev.s, Ev.st)
          /\ (Ev.state # "nil" => state'[Ev.s] = Ev.state)
          /\ fillAfter' = fillAfter \cup {<<Ev.s, Ev.st>>}
T_Err == /\ Is("Err") /\ Consume
         /\ \/ hq.active /\ hq.errs # <<>> /\ Head(hq.errs) = Ev.kind /\ HErr /\ OtherEv
            \/ Ev.kind = "nosteps" /\ UNCHANGED vars /\ OtherEv        \* reported by the check itself (HCheck)
T_Out == /\ Is("Out") /\ Consume /\ hq.active /\ hq.oc = Ev.id /\ HOut /\ OtherEv
T_HE == /\ Is("HE") /\ Consume
        /\ IF hq.active THEN HEnd /\ OtherEv
           ELSE /\ UNCHANGED vars      \* the first stage change of a step has no handler work in the model: its exit is a stutter
                /\ \E x \in fillAfter : x[1] = "sc0" /\ fillAfter' = fillAfter \ {x}
\* the first deadlock check, made inside the handler: the verdict the code computed must be the model's
\* (a re-check goroutine releases the lock right after its verdict; no event marks that, so the two are one step here)
T_Det == /\ Is("Det") /\ Consume /\ OtherEv /\ hq.active /\ HCheckWith(hq.who[1] = "det") /\ Ev.dead = DeadWith(hq.seen, g, outputDone)

\* ---- slots -------------------------------------------------------------------------------------------------------
T_Slot == /\ Is("Slot") /\ Consume
          /\ LET s == Ev.s IN
             /\ s \in Steps /\ Free(s) /\ StepEv(s)
             /\ \/ Ev.slot = "deploy" /\ Ev.op = "take" /\ slotD[s] = 1 /\ (TryD(s) \/ AwaitD(s)) /\ slotD'[s] = 0
                \/ Ev.slot = "deploy" /\ Ev.op = "miss" /\ slotD[s] = 0 /\ TryD(s)
                \/ Ev.slot = "deploy" /\ Ev.op = "miss" /\ slotD[s] = 1 /\ <<s, "deploy">> \in fillAfter      \* TryDMissLate
                      /\ Idle(s) /\ cont[s] = "tryD" /\ Go(s, <<[op |-> "SetW"]>>, "awaitD")
                      /\ UNCHANGED <<rl, stage, state, prevStage, slotD, slotE, slotR, stepCtx, closedFlag, conn, exec, execRes, sigNil, sigQ, resQ, wg, execStarted>>
                \/ Ev.slot = "enabling" /\ Ev.op = "take" /\ slotE[s] = Ev.val /\ (AwaitE(s) \/ FAwaitE(s)) /\ slotE'[s] = "empty"
                \* loop step: the look at the items input when entering the execute stage, then the receive (or the context)
                \/ Ev.slot = "execute" /\ Ev.op = "peek" /\ FTryX(s) /\ (Ev.val = "T" <=> slotR[s] = 1)
                \/ Ev.slot = "execute" /\ Ev.op = "take" /\ slotR[s] = 1 /\ FAwaitX(s) /\ slotR'[s] = 0
                \/ Ev.slot = "execute" /\ Ev.op = "ctxdone" /\ FAwaitX(s) /\ slotR'[s] = slotR[s]
                \/ Ev.slot = "starting" /\ Ev.op = "take" /\ slotR[s] = 1 /\ (TryR(s) \/ AwaitR(s)) /\ slotR'[s] = 0
                \/ Ev.slot = "starting" /\ Ev.op = "miss" /\ slotR[s] = 0 /\ TryR(s)
                \/ Ev.slot = "starting" /\ Ev.op = "miss" /\ slotR[s] = 1 /\ <<s, "starting">> \in fillAfter    \* TryRMissLate
                      /\ Idle(s) /\ cont[s] = "tryR" /\ Go(s, <<Set("starting", "waiting_for_input"), SC("resolved")>>, "awaitR")
                      /\ UNCHANGED <<rl, stage, state, prevStage, slotD, slotE, slotR, stepCtx, closedFlag, conn, exec, execRes, sigNil, sigQ, resQ, wg, execStarted>>

\* ---- deployment, execution ---------------------------------------------------------------------------------------
\* deployStage returned: after a deployment (ok or failed), or without one because the context ended while it waited
T_Deploy == /\ Is("Deploy") /\ Consume
            /\ LET s == Ev.s IN
                 /\ s \in Steps /\ Free(s) /\ StepEv(s)
                 /\ IF Ev.ctxdone THEN AwaitD(s) /\ slotD'[s] = slotD[s]
                    ELSE Deploy(s) /\ (Ev.ok <=> conn'[s] = "pending")
T_Conn == /\ Is("Conn") /\ Consume
          /\ LET s == Ev.s IN
               /\ s \in Steps /\ StepEv(s)
               /\ IF Ev.op = "set" THEN Free(s) /\ (PostDeploy(s) \/ PostDeployLive(s)) /\ conn'[s] = "live"
                  ELSE UNCHANGED vars
T_Exec == /\ Is("Exec") /\ Consume
          /\ LET s == Ev.s IN
               /\ s \in Steps
               /\ \/ Ev.op = "spawn" /\ Free(s) /\ ReadSchema(s) /\ exec'[s] = "running" /\ StepEv(s)
                  \/ Ev.op = "result" /\ PluginReturn(s) /\ execRes'[s] = Ev.out /\ OtherEv
                  \/ Ev.op = "published" /\ exec[s] = "returned" /\ ExecPublish(s) /\ OtherEv
                  \/ Ev.op = "published" /\ exec[s] = "published" /\ UNCHANGED vars /\ OtherEv
                  \/ Ev.op = "done" /\ ExecDone(s) /\ OtherEv
\* The "published" event is emitted after the channel send, so the receiver's event may come first: ResEarly composes
\* ExecPublish and the receive (grain-of-atomicity resolution; the later "published" event is then a stutter).
ResEarly(s) == /\ exec[s] = "returned" /\ resQ[s] = <<>> /\ execRes[s] = Ev.out
               /\ Idle(s) /\ cont[s] \in {"awaitRes", "awaitResCancel"}
               /\ sigNil' = [sigNil EXCEPT ![s] = TRUE] /\ exec' = [exec EXCEPT ![s] = "published"]
               /\ IF Ev.out = "err" THEN Go(s, RunFailedScript, "exit") ELSE Go(s, SuccessScript(Ev.out), "exit")
               /\ UNCHANGED <<rl, stage, state, prevStage, slotD, slotE, slotR, stepCtx, closedFlag, conn, execRes, sigQ, resQ, wg, execStarted>>
T_Res == /\ Is("Res") /\ Consume
         /\ LET s == Ev.s IN
              /\ s \in Steps /\ Free(s) /\ StepEv(s)
              /\ \/ resQ[s] # <<>> /\ Head(resQ[s]) = Ev.out /\ (AwaitRes(s) \/ AwaitResCancel(s)) /\ resQ'[s] = Tail(resQ[s])
                 \/ ResEarly(s)
\* the loop has all its item results
T_Collect == /\ Is("Collect") /\ Consume
             /\ LET s == Ev.s IN /\ s \in Steps /\ Free(s) /\ StepEv(s) /\ FRun(s)
                                 /\ (Ev.ok <=> Head(pend'[s]).stage = "outputs")
T_Exit == /\ Is("Exit") /\ Consume /\ LET s == Ev.s IN s \in Steps /\ Free(s) /\ StepEv(s) /\ Exit(s)
T_Sig == /\ Is("Sig") /\ Consume /\ UNCHANGED vars /\ OtherEv
\* closing a step: the closed flag (Close event, unless it was set before), then the cancellation of its context; a
\* stop condition (cancelStep) is part of the handler that delivered it
T_Close == /\ Is("Close") /\ Consume /\ OtherEv
           /\ IF Ev.ok THEN UNCHANGED vars          \* the flag was already set
              ELSE \/ mainPc = "grace" /\ GraceMark(Ev.s)
                   \/ mainPc = "terminate" /\ termCur = Ev.s /\ TermMark(Ev.s)
                   \/ mainPc = "terminate" /\ termCur # Ev.s /\ ~closedFlag[Ev.s]      \* the spawned terminator, still going round
                        /\ closedFlag' = [closedFlag EXCEPT ![Ev.s] = TRUE] /\ UNCHANGED rl
                        /\ UNCHANGED <<stage, state, prevStage, pend, cont, slotD, slotE, slotR, stepCtx, conn, exec, execRes, sigNil, sigQ, resQ, wg, execStarted>>
T_Ctx == /\ Is("Ctx") /\ Consume /\ OtherEv
         /\ IF Ev.why \in {"forceClose", "close"}
              THEN (CloseCancel(Ev.s) \/ (stepCtx[Ev.s] /\ UNCHANGED vars))
              ELSE UNCHANGED vars

\* ---- detector ----------------------------------------------------------------------------------------------------
T_DetWake == /\ Is("DetWake") /\ Consume /\ OtherEv /\ \E s \in Steps : DetWake(s, Ev.retries)
T_DetCtx == /\ Is("DetCtx") /\ Consume /\ OtherEv /\ \E s \in Steps, k \in 0..Retries : DetectorCtxExit(s, k)

\* ---- main --------------------------------------------------------------------------------------------------------
T_Cancel == /\ Is("Cancel") /\ Consume /\ OtherEv /\ (CallerCancel \/ ((parentCancelled \/ mainPc \notin {"kickoff", "select"}) /\ UNCHANGED vars))
T_Select == /\ Is("Select") /\ Consume /\ OtherEv /\ ~Busy(<<"main">>)
            /\ \/ Ev.branch = "output" /\ MainSelectOutput
               \/ Ev.branch = "ctx" /\ MainSelectCtx
               \/ Ev.branch = "grace-output" /\ MainGrace /\ result'.kind = "output"
               \/ Ev.branch = "grace-error" /\ MainGrace /\ result'.kind = "error" /\ result'.id # "aborted"
               \/ Ev.branch = "grace-timeout" /\ MainGrace /\ result'.id = "aborted"
T_TermStep == /\ Is("TermStep") /\ Consume /\ OtherEv
              /\ \/ mainPc = "grace" /\ UNCHANGED vars
                 \/ mainPc = "terminate" /\ TermPick(Ev.s)
                 \/ mainPc = "terminate" /\ Ev.s \notin termTodo /\ UNCHANGED vars     \* the spawned terminator is still going round
T_TermRet == /\ Is("TermRet") /\ Consume /\ OtherEv
             /\ \/ mainPc = "terminate" /\ termCur = Ev.s /\ TermWait
                \/ termCur # Ev.s /\ UNCHANGED vars
T_Return == /\ Is("Return") /\ Consume /\ OtherEv /\ MainReturn
            /\ result.kind = Ev.kind /\ (Ev.kind = "output" => result.id = Ev.id)

\* ---- actions the hooks do not witness ------------------------------------------------------------------------------
Silent == /\ l' = l
          /\ \/ \E s \in Steps : /\ Free(s) /\ StepEv(s)
                                 /\ \/ (AwaitE(s) /\ slotE'[s] = slotE[s]) \/ (AwaitR(s) /\ slotR'[s] = slotR[s])
                                    \/ (PostDeploy(s) /\ conn'[s] = "closed") \/ (ReadSchema(s) /\ exec'[s] = exec[s])
                                    \/ (FAwaitE(s) /\ slotE'[s] = slotE[s])
                                    \/ (AwaitRes(s) /\ resQ'[s] = resQ[s]) \/ CancelSend(s) \/ (AwaitResCancel(s) /\ resQ'[s] = resQ[s])
             \/ Unblock /\ OtherEv
             \/ SilentCancel /\ CallerCancel /\ OtherEv

TNext == \/ T_Set \/ T_Read \/ T_HB_K \/ T_HB_S \/ T_HB_F \/ T_Prov \/ T_Err \/ T_Out \/ T_HE \/ T_Det \/ T_Slot \/ T_Deploy \/ T_Conn
         \/ T_Exec \/ T_Res \/ T_Collect \/ T_Exit \/ T_Sig \/ T_Ctx \/ T_Close \/ T_DetWake \/ T_DetCtx \/ T_Cancel \/ T_Select \/ T_TermStep \/ T_TermRet \/ T_Return
         \/ Silent
TSpec == TInit /\ [][TNext]_tvars
\* high-water mark of consumed events
Mark == TLCSet(1, IF TLCGet(1) < l THEN l ELSE TLCGet(1))
Accepted == IF TLCGet(1) = Len(Tr) + 1 THEN TRUE ELSE PrintT(<<"STUCK", TLCGet(1)>>) /\ FALSE
CONSTANT StopAt
NotAt == l # StopAt
=============================================================================
