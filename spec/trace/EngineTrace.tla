---------------------------- MODULE EngineTrace ----------------------------
(* Monitor-mode trace validation of runs of the real engine (DESIGN 4.5, Appendix E).

   Input: Cases = a sequence of cases, each [wf, input, expect, events]: the abstract workflow the generator
   rendered the YAML from, the leaves of the normalised workflow input, the declarative expectation and the
   events one Execute call of the real engine emitted through the verif hooks (one run = one case).

   The graph state is COMPUTED: the engine's explicit ResolveNode calls (Resolve events) are applied with the
   Dgraph operators to ExpectedDAG(wf); statuses, readiness and resolved-dependency records therefore come from
   the independent graph, not from the engine's.  Step-side bookkeeping (slots, connections, executions) is
   driven by the logged events.  Each event is one step; the monitor never blocks: a broken rule is recorded in
   m.viol as <<property, rule, detail, case, line>> and the run continues, so one trace can witness several
   properties.  Rules restate the listed properties only (Appendix E); "DRIFT" entries record places where the
   engine's own view differs from the computed one without any property being broken (model drift, not alarms). *)
EXTENDS Workflow, Dgraph, Json

CONSTANT CaseFile
Cases == JsonDeserialize(CaseFile)

VARIABLES ci, l, m
vars == <<ci, l, m>>

Case == Cases[ci]
WF == Case.wf
Trace == Case.events
Dag == ExpectedDAG(WF)

Leaves(seq) == {<<x.p, x.v>> : x \in Range(seq)}
NoEval == [node |-> "nil", ok |-> TRUE, obs |-> {}]
NoH == [active |-> FALSE, kind |-> "nil", step |-> "nil", prev |-> "nil", out |-> "nil", pre |-> [x \in {} |-> "W"]]

M0(c) ==
  LET dag == ExpectedDAG(Cases[c].wf) IN
  [ g        |-> NewGraph(dag.nodes, dag.edges),
    data     |-> {<<InputNode, x.p, x.v>> : x \in Range(Cases[c].input)},
    viol     |-> {},
    h        |-> NoH,
    popped   |-> {},
    ev       |-> NoEval,
    provided |-> {},            \* <<step, stage>>
    provObs  |-> {},            \* <<step, path, value>> of accepted starting inputs
    provOff  |-> {},            \* steps whose evaluated enabling input says "not enabled" (whatever the step then reports)
    fin      |-> {},            \* <<step, stage>> reported finished
    imp      |-> {},            \* <<step, stage>> declared impossible
    completed|-> {},            \* steps that reported completion
    closedRet|-> {},            \* steps whose ForceClose/Close has returned
    slots    |-> {},            \* <<step, stage>> provided and not yet taken
    sst      |-> {},            \* <<step, stage>>: the stage each plugin step last declared (SSet)
    stopped  |-> {},            \* steps whose stop condition fired before their execution was spawned
    spawned  |-> {},            \* steps whose execution goroutine was spawned
    stopPending |-> {},         \* steps that were handed a true stop condition inside the handler that is still running
    checked  |-> {},            \* steps that passed the point where a fired stop condition still prevents the start
    execLive |-> {},            \* steps whose execution goroutine has not finished
    plugLive |-> {},            \* steps whose plugin code is executing (XExecStart without XExecEnd)
    alive    |-> {},            \* steps whose run goroutine has not exited
    conns    |-> {},            \* open run-phase connections
    outSent  |-> <<>>,          \* output ids sent
    outObs   |-> {},            \* leaves of the output sent
    readyOut |-> {},            \* output ids whose node became ready while still waiting (computed graph)
    returned |-> 0,
    cancelled|-> FALSE,         \* the caller cancelled
    mustSignal |-> {},          \* steps with a cancel handler whose plugin was executing when their context ended
    depObs   |-> {},            \* <<step, path below deploy.tag, value>>: the deployment configuration as the run loop evaluated it
    noOutReported |-> FALSE,    \* "no output can be produced any more" was reported (or the condition was flagged once)
    finDecl  |-> {},            \* steps that declared themselves finished and have not yet delivered their completion
    sigRecv  |-> {},            \* steps whose plugin received the cancel signal
    sigSent  |-> {},            \* steps the cancel signal was enqueued for (or whose plugin had already finished)
    forced   |-> {},            \* steps whose connection was force closed while the plugin executed
    itemsRunning |-> {},        \* <<foreach step, item index>> between acquire and release
    par      |-> {},            \* <<foreach step, parallelism>> as provided
    nitems   |-> {},            \* <<foreach step, number of items>> as provided
    evalFailed |-> FALSE,       \* some expression could not be evaluated at run time
    errKinds |-> {} ]

Init == ci = 1 /\ l = 1 /\ m = M0(1) /\ TLCSet(1, FALSE)

V(mm, prop, rule, detail) == [mm EXCEPT !.viol = @ \cup {<<prop, rule, detail, ci, l>>}]
VS(mm, S) == [mm EXCEPT !.viol = @ \cup {<<x[1], x[2], x[3], ci, l>> : x \in S}]
KnownNode(n) == n \in Dag.nodes

\* ---- graph events -------------------------------------------------------------------------------------------
ApplyResolve(mm, node, s) ==
  IF ~KnownNode(node) THEN V(mm, "C10", "engine-resolves-node-not-in-expected-graph", node)
  ELSE LET r == Resolve(mm.g, node, s) IN
       IF r.err # "" THEN V(mm, "C12", "node-resolved-twice", node)
       ELSE [mm EXCEPT !.g = r.g]

OnKick(mm, e) ==
  LET g1 == PushStarting(mm.g)
      r  == Resolve(g1, InputNode, "R")
  IN  [mm EXCEPT !.g = r.g, !.h = [NoH EXCEPT !.active = TRUE, !.kind = "K", !.pre = mm.g.st], !.popped = {}]

\* C13: what a loop step reports, against what its item runs returned (Case.subs[step] = per item, in index order)
SubsOf(s) == IF s \in DOMAIN Case.subs THEN Case.subs[s] ELSE <<>>
ForeachRules(mm, s, e) ==
  LET subs   == SubsOf(s)
      obs    == Leaves(e.data)
      good   == {k \in DOMAIN subs : subs[k].ok /\ subs[k].id = "success"}
      bad    == DOMAIN subs \ good
      idx(k) == ToString(subs[k].i)
      \* items that were handed to the loop but never ran (the loop was closed while they were queued): they have no
      \* result, so the loop cannot have succeeded, and its failure report must name them
      ns      == {x[2] : x \in {y \in mm.nitems : y[1] = s}}
      ran     == {idx(k) : k \in DOMAIN subs}
      missing == IF ns = {} THEN {} ELSE {ToString(i) : i \in 0..((CHOOSE x \in ns : TRUE) - 1)} \ ran
      wantOk == IF subs = <<>> THEN {<<<<"data">>, "[]">>}
                ELSE UNION {{<<<<"data", idx(k)>> \o lf.p, lf.v>> : lf \in Range(subs[k].leaves)} : k \in DOMAIN subs}
      errIdx == {o[1][2] : o \in {x \in obs : Len(x[1]) >= 2 /\ x[1][1] = "errors"}}
      datIdx == {o[1][2] : o \in {x \in obs : Len(x[1]) >= 2 /\ x[1][1] = "data"}}
      \* what each item was scripted to do in isolation: items must not influence each other
      hasExp == s \in DOMAIN Case.expectItems
      exp    == IF hasExp THEN Case.expectItems[s] ELSE <<>>
      expBad == {ToString(k - 1) : k \in {x \in DOMAIN exp : exp[x] # "success"}}
      expGood == {ToString(k - 1) : k \in {x \in DOMAIN exp : exp[x] = "success"}}
      scripted ==
        IF ~hasExp \/ mm.cancelled THEN {}
        ELSE IF e.prev = "outputs"
          THEN (IF expBad # {} THEN {<<"C13", "success-reported-although-an-item-was-scripted-to-fail", s>>} ELSE {})
          ELSE (IF errIdx # expBad THEN {<<"C13", "failure-report-blames-or-omits-items-contrary-to-their-own-outcome", s>>} ELSE {})
               \cup (IF datIdx # expGood THEN {<<"C13", "failure-report-lacks-the-results-of-items-that-succeed-on-their-own", s>>} ELSE {})
  IN
  scripted \cup
  IF e.prev = "outputs" THEN
       (IF bad # {} THEN {<<"C13", "success-reported-although-an-item-failed-or-ended-in-a-non-success-output", s>>} ELSE {})
       \cup (IF missing # {} THEN {<<"C13", "success-reported-although-an-item-never-ran", s>>} ELSE {})
       \cup (IF bad = {} /\ missing = {} /\ obs # wantOk THEN {<<"C13", "success-data-is-not-the-item-results-in-item-order", s>>} ELSE {})
  ELSE (IF bad = {} /\ missing = {} THEN {<<"C13", "failure-reported-although-every-item-succeeded", s>>} ELSE {})
       \cup (IF errIdx # {idx(k) : k \in bad} \cup missing THEN {<<"C13", "failure-report-does-not-identify-exactly-the-failing-items", s>>} ELSE {})
       \cup (IF datIdx # {idx(k) : k \in good} THEN {<<"C13", "failure-report-does-not-carry-the-results-of-the-other-items", s>>} ELSE {})
       \* "with their messages": an item whose run returned an error is reported with THAT error's text
       \cup (IF \E k \in bad : ~subs[k].ok /\ subs[k].err # "nil" /\ <<<<"errors", idx(k)>>, subs[k].err>> \notin obs
                                /\ \E o \in obs : o[1] = <<"errors", idx(k)>>
              THEN {<<"C13", "failure-report-gives-an-item-another-message-than-its-run-returned", s>>} ELSE {})

OnFItem(mm, e) ==
  CASE e.op = "acquire" ->
         LET r2 == mm.itemsRunning \cup {<<e.step, e.i>>}
             n  == Cardinality({x \in r2 : x[1] = e.step})
             \* the bound is the one the workflow text declares (1 when it declares none), not the one the
             \* implementation computed; the computed one is only used for loops whose bound is an expression
             p  == IF e.step \in DOMAIN Case.declPar THEN {Case.declPar[e.step]}
                   ELSE {x[2] : x \in {y \in mm.par : y[1] = e.step}}
         IN  VS([mm EXCEPT !.itemsRunning = r2],
                IF p # {} /\ n > (CHOOSE x \in p : TRUE) THEN {<<"C13", "more-items-running-than-parallelism-allows", e.step>>} ELSE {})
    [] e.op = "release" -> [mm EXCEPT !.itemsRunning = @ \ {<<e.step, e.i>>}]
    [] OTHER -> mm

OnHEnterS(mm, e) ==
  LET s == e.step
      base == [mm EXCEPT !.h = [active |-> TRUE, kind |-> e.hc, step |-> s, prev |-> e.prev, out |-> e.out, pre |-> mm.g.st],
                         !.popped = {}, !.ev = NoEval]
  IN
  IF e.prev = "nil" THEN base
  ELSE
  LET known == s \in StepIds(WF) /\ e.prev \in StagesOf(KindOf(WF, s))
      c1 == IF ~known THEN {<<"C12", "notification-for-unknown-step-or-stage", s \o "." \o e.prev>>} ELSE {}
      c2 == IF <<s, e.prev>> \in mm.fin THEN {<<"C12", "stage-finished-twice", s \o "." \o e.prev>>} ELSE {}
      c3 == IF <<s, e.prev>> \in mm.imp THEN {<<"C12", "stage-finished-after-declared-impossible", s \o "." \o e.prev>>} ELSE {}
      c4 == IF known /\ e.out # "nil" /\ e.out \notin Declared(WF, s, e.prev)
              THEN {<<"C12", "undeclared-output", s \o "." \o e.prev \o "." \o e.out>>} ELSE {}
      c5 == IF e.hc = "CO" /\ s \in mm.completed THEN {<<"C12", "second-completion", s>>} ELSE {}
      c6 == IF s \in mm.completed THEN {<<"C12", "stage-change-after-completion", s>>} ELSE {}
      c7 == IF s \in mm.closedRet THEN {<<"C12", "notification-after-close-returned", s>>} ELSE {}
      \* a step that declares itself finished delivers its completion next: a stage change in between means the step
      \* reported "finished" while it still held the result the run waits for (the detector counts it as done)
      c10 == IF e.hc # "CO" /\ s \in mm.finDecl THEN {<<"C09", "step-declared-finished-before-handing-over-its-result", s \o "." \o e.prev>>} ELSE {}
      \* what a loop step reports is judged as the step reports it
      c9 == IF known /\ KindOf(WF, s) = "foreach" /\ e.out # "nil" /\ e.prev \in {"outputs", "failed"}
              THEN ForeachRules(mm, s, e) ELSE {}
  IN  VS([base EXCEPT !.fin = @ \cup {<<s, e.prev>>},
                      !.completed = IF e.hc = "CO" THEN @ \cup {s} ELSE @,
                      !.finDecl = IF e.hc = "CO" THEN @ \ {s} ELSE @],
         c1 \cup c2 \cup c3 \cup c4 \cup c5 \cup c6 \cup c7 \cup c9 \cup c10)

\* the run loop makes the output of a finished stage available to expressions (in the handler of the notification,
\* after it resolved the stage's nodes): THIS value - not the one the step handed over, which the run loop may still
\* serialize - is what must match the declared schema and what consumers will read
OnStored(mm, e) ==
  LET s == e.step
      c0 == IF ~(mm.h.active /\ mm.h.step = s /\ mm.h.prev = e.prev /\ mm.h.out = e.out)
              THEN {<<"C12", "output-stored-outside-the-handler-of-its-notification", s \o "." \o e.prev \o "." \o e.out>>} ELSE {}
      c8 == IF e.out # "nil" /\ e.conforms = "n" THEN {<<"C08", "step-output-does-not-match-declared-schema", s \o "." \o e.prev \o "." \o e.out>>} ELSE {}
      node == StageOutNode(s, e.prev, e.out)
      d1 == IF e.out # "nil" THEN mm.data \cup {<<node, x.p, x.v>> : x \in Range(e.data)} ELSE mm.data
  IN  VS([mm EXCEPT !.data = d1], c0 \cup c8)

OnHEnterF(mm, e) ==
  LET s == e.step
      c1 == IF <<s, e.stage>> \in mm.fin THEN {<<"C12", "stage-declared-impossible-after-finished", s \o "." \o e.stage>>} ELSE {}
      c2 == IF s \in mm.closedRet THEN {<<"C12", "notification-after-close-returned", s>>} ELSE {}
      c3 == IF s \in mm.finDecl THEN {<<"C09", "step-declared-finished-before-handing-over-its-result", s \o "." \o e.stage>>} ELSE {}
  IN  VS([mm EXCEPT !.h = [active |-> TRUE, kind |-> "F", step |-> s, prev |-> e.stage, out |-> "nil", pre |-> mm.g.st],
                    !.popped = {}, !.ev = NoEval, !.imp = @ \cup {<<s, e.stage>>}],
         c1 \cup c2 \cup c3)

OnPop(mm, e) ==
  LET mine   == mm.g.ready
      theirs == {x.n : x \in Range(e.ready)}
      newOut == {id \in OutputIds(WF) : OutputNode(id) \in mine /\ mm.g.st[OutputNode(id)] = "W"}
      mm1    == [mm EXCEPT !.popped = @ \cup mine, !.g = PopReady(mm.g), !.readyOut = @ \cup newOut]
      \* a node the independent graph holds ready - every dependency that may block it is decided - but the engine does not
      \* process, and that hangs on a soft-optional dependency: the engine is making a consumer wait for a soft-optional source
      softWait == {n \in mine \ theirs : \E ed \in ExpectedDAG(WF).edges : ed[1] = n /\ ed[3] = "opt"}
      mm2    == IF softWait # {} THEN V(mm1, "C15", "soft-optional-source-delays-its-consumer", CHOOSE n \in softWait : TRUE) ELSE mm1
  IN  IF mine # theirs THEN V(mm2, "DRIFT", "popped-set-differs", "") ELSE mm2

\* evaluation of the expressions of a node that the engine considers ready
OnEval(mm, e) ==
  LET node == e.node
      obs  == Leaves(e.data)
      isStage == \E s \in StepIds(WF) : \E st \in StagesOf(KindOf(WF, s)) : node = StageNode(s, st)
      isOut == \E id \in OutputIds(WF) : node = OutputNode(id)
      mm1  == [mm EXCEPT !.ev = [node |-> node, ok |-> e.ok, obs |-> obs], !.evalFailed = @ \/ ~e.ok]
      cReady == IF KnownNode(node) /\ (node \notin mm.popped \/ mm.g.st[node] # "W")
                  THEN {<<"C02", "evaluated-before-dependencies-resolved", node>>} ELSE {}
      \* a failing evaluation is legal in general (it must surface as a returned error: checked at Return / Final), but in
      \* a workflow whose expressions are all total over what their producers emit (Case.pure, set by the generator)
      \* a failure means a produced value was not there when its consumer was evaluated
      cOk == IF ~e.ok /\ Case.pure /\ KnownNode(node)
               THEN {<<IF isOut THEN "C03" ELSE "C02", "produced-value-missing-when-its-consumer-was-evaluated", node>>} ELSE {}
      checks ==
        IF ~e.ok \/ ~KnownNode(node) THEN {}
        ELSE IF isStage THEN
          LET s  == CHOOSE x \in StepIds(WF) : \E st \in StagesOf(KindOf(WF, x)) : node = StageNode(x, st)
              st == CHOOSE y \in StagesOf(KindOf(WF, s)) : node = StageNode(s, y)
              fs == StageFields(WF, s, st)
              foreign == {o \in obs : o[1] # <<>> /\ o[1][1] \notin fs}
          IN  (IF foreign # {} THEN {<<"C02", "foreign-field", node>>} ELSE {})
              \cup UNION {TreeCheck(WF.steps[s].fields[f], node, <<>>, <<f>>, {}, obs, mm.g.st, mm.h.pre, mm.data) : f \in fs}
        ELSE IF isOut THEN
          LET id == CHOOSE x \in OutputIds(WF) : node = OutputNode(x) IN
          {<<IF x[1] = "C02" THEN "C03" ELSE x[1], x[2], x[3]>> :
               x \in TreeCheck(WF.outputs[id], node, <<>>, <<>>, {}, obs, mm.g.st, mm.h.pre, mm.data)}
        ELSE {}
  IN  VS(mm1, cReady \cup cOk \cup checks)

OnProvide(mm, e) ==
  LET node == StageNode(e.step, e.stage)
      c1 == IF mm.ev.node # node THEN {<<"C02", "input-provided-without-evaluation", node>>} ELSE {}
      c2 == IF <<e.step, e.stage>> \in mm.provided /\ e.stage # "cancelled"
              THEN {<<"C12", "stage-input-provided-twice", node>>} ELSE {}
      c3 == IF e.step \in mm.closedRet THEN {<<"C12", "input-provided-after-close-returned", node>>} ELSE {}
      po == IF e.stage = "starting"
              THEN {<<e.step, Strip(o[1], 1), o[2]>> : o \in {x \in mm.ev.obs : x[1] # <<>> /\ x[1][1] = "input"}}
              ELSE {}
      dpo == IF e.stage = "deploy"
               THEN {<<e.step, Strip(o[1], 2), o[2]>> : o \in {x \in mm.ev.obs : Len(x[1]) >= 2 /\ x[1][1] = "deploy" /\ x[1][2] = "tag"}}
               ELSE {}
      \* the value of `enabled` as the run loop evaluated it from the workflow text (boolean forms of the YAML layer)
      off == e.stage = "enabling" /\ \E o \in mm.ev.obs : o[1] = <<"enabled">> /\ o[2] \in {"false", "False", "FALSE", "no", "off", "0", "n", "disable", "disabled"}
      \* the stop condition as the run loop evaluated it: whatever it resolved to - an object, an empty object, zero, a
      \* string - it has fired, unless it is the literal false.  Judged here, on the run loop's own evaluation, not on the
      \* step's announcement that it accepted the condition.
      fired == e.stage = "cancelled" /\ \E o \in mm.ev.obs : o[1] # <<>> /\ o[1][1] = "stop_if" /\ ~(o[1] = <<"stop_if">> /\ o[2] = "false")
      sp == IF fired /\ e.step \notin mm.checked /\ e.step \notin mm.spawned THEN {e.step} ELSE {}
  IN  VS([mm EXCEPT !.provided = @ \cup {<<e.step, e.stage>>}, !.provObs = @ \cup po,
                    !.provOff = IF off THEN @ \cup {e.step} ELSE @,
                    !.depObs = @ \cup dpo,
                    !.stopPending = @ \cup sp], c1 \cup c2 \cup c3)

OnOutSend(mm, e) ==
  LET node == OutputNode(e.id)
      c1 == IF mm.ev.node # node THEN {<<"C03", "output-sent-without-evaluation", node>>} ELSE {}
      c2 == IF mm.outSent # <<>> THEN {<<"C01", "second-output-sent", e.id>>} ELSE {}
      c3 == IF e.id \notin OutputIds(WF) THEN {<<"C03", "undeclared-workflow-output", e.id>>} ELSE {}
  IN  VS([mm EXCEPT !.outSent = Append(@, e.id), !.outObs = mm.ev.obs], c1 \cup c2 \cup c3)

Quiet(mm) == mm.slots = {} /\ mm.execLive = {} /\ mm.plugLive = {}

OnErrPush(mm0, e) ==
  LET mm == IF e.kind = "nooutputs" THEN [mm0 EXCEPT !.noOutReported = TRUE] ELSE mm0
      c1 == IF e.bug THEN {<<"C08", "internal-bug-error", e.kind>>} ELSE {}
      c2 == IF e.kind = "nooutputs" /\ \E id \in OutputIds(WF) : mm.g.st[OutputNode(id)] # "U"
              THEN {<<"C03", "no-more-outputs-reported-while-an-output-is-still-possible", "">>} ELSE {}
      c3 == IF e.kind = "nosteps" /\ mm.slots # {}
              THEN {<<"C09", "no-more-steps-reported-while-a-step-has-unread-input", (CHOOSE x \in mm.slots : TRUE)[1] \o "." \o (CHOOSE x \in mm.slots : TRUE)[2]>>} ELSE {}
      c4 == IF e.kind = "nosteps" /\ (mm.execLive # {} \/ mm.plugLive # {})
              THEN {<<"C09", "no-more-steps-reported-while-a-plugin-is-executing", "">>} ELSE {}
      c5 == IF e.kind \in {"resolvestage", "resolveoutput", "getstage", "getoutput"}
              THEN {<<"C12", "run-loop-rejected-a-notification", e.kind>>} ELSE {}
  IN  VS([mm EXCEPT !.errKinds = @ \cup {e.kind}], c1 \cup c2 \cup c3 \cup c4 \cup c5)

\* ---- step-side events ------------------------------------------------------------------------------------------
\* Engine.tla's invariant StateSlotTruthful evaluated on the recorded execution: a plugin step never declares itself
\* waiting for an input that has been provided and not yet taken (the fallback detector trusts that declaration)
InputStages == {"deploy", "enabling", "starting", "execute"}   \* plugin and loop steps
OnSSet(mm, e) ==
  LET mm1 == [mm EXCEPT !.sst = {x \in @ : x[1] # e.step} \cup {<<e.step, e.stage>>},
                        !.finDecl = IF e.state = "finished" /\ e.step \notin mm.completed THEN @ \cup {e.step} ELSE @ \ {e.step}]
  IN  IF e.state = "waiting_for_input" /\ e.stage \in InputStages /\ <<e.step, e.stage>> \in mm.slots
        THEN V(mm1, "C09", "step-declared-waiting-although-its-input-was-provided", e.step \o "." \o e.stage)
        ELSE mm1
\* ... and providing the input of the stage a step is in ends its waiting
ProvKeepsWaiting(mm, e) ==
  e.ok /\ e.stage \in InputStages /\ e.state = "waiting_for_input" /\ <<e.step, e.stage>> \in mm.sst

OnSProv(mm, e) ==
  IF ~e.ok THEN mm
  ELSE IF ProvKeepsWaiting(mm, e)
    THEN V([mm EXCEPT !.slots = @ \cup {<<e.step, e.stage>>}], "C09", "input-provided-but-step-still-declares-waiting", e.step \o "." \o e.stage)
  ELSE IF e.stage = "cancelled"
    THEN (IF e.val = "true" /\ e.step \notin mm.checked /\ e.step \notin mm.spawned
            THEN [mm EXCEPT !.stopPending = @ \cup {e.step}] ELSE mm)
    ELSE [mm EXCEPT !.slots = @ \cup {<<e.step, e.stage>>},
                    !.par = IF e.stage = "execute" THEN @ \cup {<<e.step, e.par>>} ELSE @,
                    !.nitems = IF e.stage = "execute" THEN @ \cup {<<e.step, e.n>>} ELSE @]

OnSSlot(mm, e) ==
  IF e.op = "take" THEN [mm EXCEPT !.slots = @ \ {<<e.step, e.slot>>}] ELSE mm

OnSExec(mm, e) ==
  CASE e.op = "spawn" ->
         VS([mm EXCEPT !.spawned = @ \cup {e.step}, !.execLive = @ \cup {e.step}],
            (IF e.step \in mm.stopped THEN {<<"C04", "execution-started-after-stop-condition-fired", e.step>>} ELSE {})
            \cup (IF <<e.step, "starting">> \notin mm.provided THEN {<<"C04", "execution-started-without-input", e.step>>} ELSE {}))
    [] e.op = "check" -> [mm EXCEPT !.checked = @ \cup {e.step}]
    [] e.op = "done" -> [mm EXCEPT !.execLive = @ \ {e.step}]
    [] OTHER -> mm

OnXExecStart(mm, e) ==
  LET s == e.step
      obs == Leaves(e.input)
      want == {<<x[2], x[3]>> : x \in {y \in mm.provObs : y[1] = s}}
      enabledTrue == <<StageOutNode(s, "enabling", "resolved"), <<"enabled">>, "true">> \in mm.data
      c1 == IF <<s, "starting">> \notin mm.provided THEN {<<"C04", "plugin-executed-without-provided-input", s>>} ELSE {}
      c2 == IF ~enabledTrue \/ s \in mm.provOff THEN {<<"C04", "plugin-executed-without-being-enabled", s>>} ELSE {}
      c3 == IF <<s, "starting">> \in mm.provided /\ obs # want THEN {<<"C02", "plugin-received-input-different-from-provided", s>>} ELSE {}
  IN  VS([mm EXCEPT !.plugLive = @ \cup {s}], c1 \cup c2 \cup c3)

OnReturn(mm, e) ==
  LET c1 == (IF mm.returned > 0 THEN {<<"C01", "returned-twice", "">>} ELSE {})
            \cup (IF ~e.iserr /\ e.id \in {"nil", ""} THEN {<<"C01", "returned-neither-an-output-nor-an-error", "">>} ELSE {})
      c2 == IF mm.conns # {} THEN {<<"C05", "plugin-connection-still-open-at-return", "">>} ELSE {}
      c3 == IF mm.alive # {} THEN {<<"C05", "step-goroutine-alive-at-return", "">>} ELSE {}
      c4 == IF mm.execLive # {} THEN {<<"C05", "execution-goroutine-alive-at-return", "">>} ELSE {}
      c5 == IF ~e.iserr /\ (mm.outSent = <<>> \/ mm.outSent[1] # e.id) THEN {<<"C03", "returned-output-was-not-the-one-sent", e.id>>} ELSE {}
      c6 == IF ~e.iserr /\ e.id \notin OutputIds(WF) THEN {<<"C03", "returned-undeclared-output", e.id>>} ELSE {}
      c7 == IF e.iserr /\ ~mm.cancelled /\ mm.readyOut # {} /\ mm.outSent = <<>>
              THEN {<<"C03", "error-returned-although-an-output-was-ready", "">>} ELSE {}
      c8 == IF mm.plugLive # {} THEN {<<"C06", "plugin-still-executing-at-return", "">>} ELSE {}
      c9 == IF e.iserr /\ e.bug THEN {<<"C08", "internal-bug-error-returned", "">>} ELSE {}
      c11 == IF mm.mustSignal \ mm.sigSent # {} THEN {<<"C06", "executing-plugin-with-cancel-handler-was-not-signalled", CHOOSE x \in mm.mustSignal \ mm.sigSent : TRUE>>} ELSE {}
      c10 == IF mm.evalFailed /\ ~e.iserr THEN {<<"C07", "evaluation-failure-did-not-surface-as-error", e.id>>} ELSE {}
      \* plugins executing inside the runs a loop step of THIS run started for its items (at any depth) belong to this run:
      \* none of them may still be executing when it returns (counted by the driver between the item runs' plugin
      \* start/end events and this Return event)
      c12 == IF Case.subLiveAtReturn > 0 THEN {<<"C06", "plugin-of-a-loop-item-still-executing-at-return", ToString(Case.subLiveAtReturn)>>} ELSE {}
  IN  VS([mm EXCEPT !.returned = @ + 1], c1 \cup c2 \cup c3 \cup c4 \cup c5 \cup c6 \cup c7 \cup c8 \cup c9 \cup c10 \cup c11 \cup c12)

Dispatch(mm, e) ==
  CASE e.ev = "HEnter" /\ e.h = "K" -> OnKick(mm, e)
    [] e.ev = "HEnter" /\ e.h = "S" -> OnHEnterS(mm, e)
    [] e.ev = "Stored" -> OnStored(mm, e)
    [] e.ev = "HEnter" /\ e.h = "F" -> OnHEnterF(mm, e)
    \* when the handler that delivered a true stop condition has returned, the step has been told to stop: if it has
    \* not yet passed its start-time check it must never start
    [] e.ev = "HExit"     ->
         LET mm1  == [mm EXCEPT !.h = NoH, !.stopped = @ \cup (mm.stopPending \ mm.checked), !.stopPending = {}]
             \* every declared output has become impossible in this run: the handler in which the last one did must have said
             \* so (the run then ends promptly with that error instead of waiting for steps that no longer matter)
             dead == OutputIds(WF) # {} /\ \A id \in OutputIds(WF) : mm.g.st[OutputNode(id)] = "U"
         IN  IF dead /\ ~mm.noOutReported /\ mm.outSent = <<>> /\ ~mm.cancelled /\ mm.returned = 0 /\ ~mm.evalFailed
               THEN V([mm1 EXCEPT !.noOutReported = TRUE], "C01", "every-output-impossible-but-the-run-was-not-told", "")
               ELSE mm1
    [] e.ev = "Resolve"   -> ApplyResolve(mm, e.node, e.status)
    [] e.ev = "ResolveErr"-> V(mm, "C12", "engine-reported-resolution-error", e.err)
    [] e.ev = "Pop"       -> OnPop(mm, e)
    [] e.ev = "Eval"      -> OnEval(mm, e)
    [] e.ev = "Provide"   -> OnProvide(mm, e)
    [] e.ev = "OutSend"   -> OnOutSend(mm, e)
    [] e.ev = "ErrPush"   -> OnErrPush(mm, e)
    [] e.ev = "SStart"    -> [mm EXCEPT !.alive = @ \cup {e.step}]
    [] e.ev = "SExit"     -> [mm EXCEPT !.alive = @ \ {e.step}]
    [] e.ev = "SProv"     -> OnSProv(mm, e)
    [] e.ev = "SSlot"     -> OnSSlot(mm, e)
    [] e.ev = "SSet"      -> OnSSet(mm, e)
    [] e.ev = "SExec"     -> OnSExec(mm, e)
    [] e.ev = "SCloseRet" -> [mm EXCEPT !.closedRet = @ \cup {e.step}]
    [] e.ev = "XDeploy"   -> [mm EXCEPT !.conns = @ \cup {e.conn}]
    \* the deployer is created with the configuration THIS run evaluated for THIS step (not a cached one, not another
    \* item's): what the scripted deployer sees in its free-form field is what the run loop handed to the deploy stage
    [] e.ev = "XDeployBegin" ->
         LET want == {<<x[2], x[3]>> : x \in {y \in mm.depObs : y[1] = e.step}}
             got  == {<<x.p, x.v>> : x \in Range(e.data)}
         IN  IF e.step # "nil" /\ want # {} /\ got # want
               THEN V(mm, "C02", "deployed-with-another-configuration-than-the-one-evaluated-for-this-run", e.step) ELSE mm
    [] e.ev = "XConnClose"-> [mm EXCEPT !.conns = @ \ {e.conn}]
    [] e.ev = "XExecStart"-> OnXExecStart(mm, e)
    [] e.ev = "XExecEnd"  -> [mm EXCEPT !.plugLive = @ \ {e.step}]
    [] e.ev = "XSigRecv"  -> [mm EXCEPT !.sigRecv = @ \cup {e.step}]
    \* the plugin was killed (its connection went away while it executed).  A plugin with a cancel handler whose step was
    \* cancelled is sent the signal and given closure_wait_timeout to react: with a timeout that leaves room for the signal
    \* to travel even on a loaded machine (>= 1000 ms; the default is 5000) it must have RECEIVED the signal before it is killed - a signal enqueued behind a connection
    \* that is already closed has not been sent to anybody
    [] e.ev = "XExecAbort" ->
         IF e.step \in mm.mustSignal /\ e.step \notin mm.sigRecv /\ e.step \in DOMAIN Case.closure /\ Case.closure[e.step] >= 1000
           THEN V(mm, "C06", "plugin-killed-before-the-cancel-signal-reached-it", e.step) ELSE mm
    [] e.ev = "XCallerCancel" -> [mm EXCEPT !.cancelled = TRUE]
    [] e.ev = "FItem"     -> OnFItem(mm, e)
    [] e.ev = "SRunCtx"   -> IF e.handler /\ e.step \in mm.plugLive THEN [mm EXCEPT !.mustSignal = @ \cup {e.step}] ELSE mm
    [] e.ev = "SSig"      -> [mm EXCEPT !.sigSent = @ \cup {e.step}]
    [] e.ev = "SCtx"      -> IF e.why = "cancelStep" /\ e.step \notin mm.checked /\ e.step \notin mm.spawned
                               THEN [mm EXCEPT !.stopped = @ \cup {e.step}] ELSE mm
    [] e.ev = "Return"    -> OnReturn(mm, e)
    [] OTHER -> mm

\* end-of-case rules
Final(mm) ==
  VS(mm, (IF mm.returned = 0 /\ ~Case.noreturn THEN {<<"C01", "run-did-not-return", "">>} ELSE {})
         \cup (IF mm.returned = 0 /\ mm.evalFailed THEN {<<"C07", "no-result-after-evaluation-failure", "">>} ELSE {}))

StepEv == /\ l <= Len(Trace)
          /\ m' = Dispatch(m, Trace[l])
          /\ l' = l + 1 /\ ci' = ci
NextCase == /\ l = Len(Trace) + 1 /\ ci < Len(Cases)
            /\ ci' = ci + 1 /\ l' = 1
            /\ m' = [M0(ci + 1) EXCEPT !.viol = Final(m).viol]
Finish == /\ l = Len(Trace) + 1 /\ ci = Len(Cases)
          /\ m' = Final(m) /\ l' = l + 1 /\ ci' = ci
Next == StepEv \/ NextCase \/ Finish
Spec == Init /\ [][Next]_vars

Done == ci = Len(Cases) /\ l = Len(Trace) + 2
\* export the verdicts of the whole batch when the last state is reached
Export == Done => /\ TLCSet(1, TRUE)
                  /\ PrintT(<<"VERDICTS", ToJson(m.viol)>>)
Accepted == TLCGet(1) = TRUE
TypeOK == GraphTypeOK(m.g)
=============================================================================
