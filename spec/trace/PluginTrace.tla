---------------------------- MODULE PluginTrace ----------------------------
(* Strict trace validation of one real plugin step (provider API level, C12) against PluginStep.tla.
   Logged events are bound to the specification's actions with their logged fields; everything the hooks do not
   report (blocking-point decisions, exec goroutine steps, deployment result) is a silent step TLC infers.
   Acceptance = the whole trace can be consumed (high-water mark), with the C12 invariants evaluated in every
   state on the way.                                                                                          *)
EXTENDS PluginStep, Json

CONSTANT TraceFile
Tr == JsonDeserialize(TraceFile)
VARIABLE l
tvars == <<vars, l>>
Max(a, b) == IF a > b THEN a ELSE b
TInit == Init /\ l = 1 /\ TLCSet(1, 1)
Ev == Tr[l]
IsEv(e) == l <= Len(Tr) /\ Tr[l].ev = e /\ l' = l + 1

Silent == /\ l' = l
          /\ \/ TryD \/ AwaitD \/ Deploy \/ PostDeploy \/ AwaitE \/ TryR \/ AwaitR \/ ReadSchema
             \/ AwaitRes \/ CancelSend \/ AwaitResCancel \/ DeferClose
             \/ ExecCloseSig \/ ExecPublish \/ ExecDone \/ ExecNeverReached
             \/ \E c \in Closers : CloseCancel(c)

\* assignment of stage/state under the step lock
TSet == /\ IsEv("SSet") /\ StepMicro /\ Head(pend).op \in {"Set", "SetSt"}
        /\ stage' = Ev.stage /\ state' = Ev.state
\* a notification reaching the handler
LastN == notif'[Len(notif')]
TNotif == /\ IsEv("Notif") /\ StepMicro /\ Len(notif') = Len(notif) + 1
          /\ LastN.k = Ev.k
          /\ IF Ev.k = "F" THEN LastN.stage = Ev.prev
             ELSE LastN.prev = Ev.prev /\ LastN.out = Ev.out /\ (Ev.k = "SC" => LastN.new = Ev.new)
TProv == /\ IsEv("SProv")
         /\ CASE Ev.stage = "deploy"    -> ProvideDeploy /\ (refused' = refused + 1) = ~Ev.ok
              [] Ev.stage = "enabling"  -> ProvideEnabling /\ (refused' = refused + 1) = ~Ev.ok
                                           /\ (Ev.ok => slotE' = IF Ev.val = "true" THEN "T" ELSE "F")
              [] Ev.stage = "starting"  -> ProvideStarting /\ (refused' = refused + 1) = ~Ev.ok
              [] Ev.stage = "cancelled" -> ProvideCancelled
         /\ (Ev.ok /\ Ev.stage # "cancelled" => state' = Ev.state)
TClose == /\ IsEv("SClose") /\ \E c \in Closers : CloseSwap(c) /\ (cpc'[c] = "wait") = Ev.was
TCloseRet == IsEv("SCloseRet") /\ \E c \in Closers : CloseWait(c)
TExit == IsEv("SExit") /\ Exit
TPlugEnd == /\ IsEv("XExecEnd")
            /\ IF Ev.out = "cancelled_early" THEN PluginCancelled
               ELSE PluginReturn /\ execRes' = (IF Ev.out = "<crash>" THEN "err" ELSE Ev.out)
TPlugAbort == IsEv("XExecAbort") /\ ExecAbort
TPlugStart == IsEv("XExecStart") /\ PluginStart
TNext == Silent \/ TSet \/ TNotif \/ TProv \/ TClose \/ TCloseRet \/ TExit \/ TPlugEnd \/ TPlugAbort \/ TPlugStart
TSpec == TInit /\ [][TNext]_tvars
HighWater == TLCSet(1, Max(TLCGet(1), l))
Accepted == PrintT(<<"HW", TLCGet(1), Len(Tr)>>) /\ TLCGet(1) = Len(Tr) + 1
=============================================================================
