---------------------------- MODULE StepMonitor ----------------------------
(* Monitor-mode validation of the notification history of one real step driven through the provider API (C12):
   the statements of the property, evaluated over recorded events only (no model of the provider involved).
   Cases: sequence of [kind, outs, events]; never blocks, records broken rules in viol.                        *)
EXTENDS Naturals, Sequences, FiniteSets, TLC, Json, Lifecycles
CONSTANT CaseFile
Cases == JsonDeserialize(CaseFile)
VARIABLES ci, l, m
vars == <<ci, l, m>>
Range(f) == {f[x] : x \in DOMAIN f}
Tr == Cases[ci].events
Kind == Cases[ci].kind
Outs == Range(Cases[ci].outs)
M0 == [viol |-> {}, fin |-> {}, imp |-> {}, completions |-> 0, closeRet |-> FALSE, provided |-> {}, got |-> {}, lastState |-> "nil",
       pendingClose |-> 0, notifs |-> 0]
Init == ci = 1 /\ l = 1 /\ m = M0 /\ TLCSet(1, FALSE)
VS(mm, S) == [mm EXCEPT !.viol = @ \cup {<<x[1], x[2], x[3], ci, l>> : x \in S}]

OnNotif(mm, e) ==
  LET after == IF mm.closeRet THEN {<<"C12", "notification-after-close-returned", e.k \o ":" \o e.prev>>} ELSE {}
      late  == IF mm.completions > 0 /\ e.k # "F" THEN {<<"C12", "stage-change-after-completion", e.k \o ":" \o e.prev>>} ELSE {}
  IN
  IF e.k = "F" THEN
    VS([mm EXCEPT !.imp = @ \cup {e.prev}, !.notifs = @ + 1],
       after \cup (IF e.prev \in mm.fin THEN {<<"C12", "stage-declared-impossible-after-finished", e.prev>>} ELSE {})
             \cup (IF e.prev \notin StagesOf(Kind) THEN {<<"C12", "unknown-stage", e.prev>>} ELSE {}))
  ELSE IF e.prev = "nil" THEN VS([mm EXCEPT !.notifs = @ + 1], after \cup late)
  ELSE
    VS([mm EXCEPT !.fin = @ \cup {e.prev}, !.completions = IF e.k = "CO" THEN @ + 1 ELSE @, !.notifs = @ + 1],
       after \cup late
       \cup (IF e.prev \in mm.fin THEN {<<"C12", "stage-finished-twice", e.prev>>} ELSE {})
       \* a stage that works on an input cannot have finished if the step never accepted that input
       \cup (IF e.prev \in {"deploy", "enabling", "starting"} /\ e.prev \notin mm.got
              THEN {<<"C12", "stage-reported-finished-although-its-input-was-never-accepted", e.prev>>} ELSE {})
       \cup (IF e.prev \in mm.imp THEN {<<"C12", "stage-finished-after-declared-impossible", e.prev>>} ELSE {})
       \cup (IF e.prev \notin StagesOf(Kind) THEN {<<"C12", "unknown-stage", e.prev>>} ELSE {})
       \cup (IF e.out # "nil" /\ e.out \notin DeclaredOf(Kind, e.prev, Outs) THEN {<<"C12", "undeclared-output", e.prev \o "." \o e.out>>} ELSE {})
       \cup (IF e.k = "CO" /\ mm.completions > 0 THEN {<<"C12", "second-completion", e.prev>>} ELSE {})
       \cup (IF e.k = "CO" /\ e.prev \notin FinalStages(Kind) THEN {<<"C12", "completion-in-non-final-stage", e.prev>>} ELSE {}))

\* return of an environment call
OnEnvRet(mm, e) ==
  CASE e.op = "provide" ->
         LET dup == e.stage \in mm.provided /\ e.stage \in {"deploy", "enabling", "starting", "execute"} IN
         VS([mm EXCEPT !.provided = IF e.iserr THEN @ ELSE @ \cup {e.stage}],
            (IF dup /\ ~e.iserr /\ ~mm.closeRet THEN {<<"C12", "second-input-for-a-stage-accepted", e.stage>>} ELSE {}))
    [] e.op \in {"close", "forceclose"} ->
         VS([mm EXCEPT !.closeRet = TRUE],
            (IF e.iserr THEN {<<"C12", "close-returned-an-error", e.err>>} ELSE {}))
    [] OTHER -> mm

OnFinal(mm, e) ==   \* state observed after the last close returned
  VS(mm, (IF mm.completions = 1 /\ e.state # "finished" THEN {<<"C12", "completed-step-not-shown-as-finished", e.state>>} ELSE {})
         \cup (IF mm.completions # 1 /\ mm.notifs > 0 /\ e.expectCompletion THEN {<<"C12", "no-single-completion-after-close", ToString(mm.completions)>>} ELSE {}))

Dispatch(mm, e) ==
  CASE e.ev = "Notif"  -> OnNotif(mm, e)
    [] e.ev = "SProv" /\ e.ok -> [mm EXCEPT !.got = @ \cup {e.stage}]
    [] e.ev = "EnvRet" -> OnEnvRet(mm, e)
    [] e.ev = "Final"  -> OnFinal(mm, e)
    [] OTHER -> mm
StepEv == l <= Len(Tr) /\ m' = Dispatch(m, Tr[l]) /\ l' = l + 1 /\ ci' = ci
NextCase == l = Len(Tr) + 1 /\ ci < Len(Cases) /\ ci' = ci + 1 /\ l' = 1 /\ m' = [M0 EXCEPT !.viol = m.viol]
Finish == l = Len(Tr) + 1 /\ ci = Len(Cases) /\ l' = l + 1 /\ UNCHANGED <<ci, m>>
Next == StepEv \/ NextCase \/ Finish
Spec == Init /\ [][Next]_vars
Done == ci = Len(Cases) /\ l = Len(Tr) + 2
Export == Done => TLCSet(1, TRUE) /\ PrintT(<<"VERDICTS", ToJson(m.viol)>>)
Accepted == TLCGet(1) = TRUE
=============================================================================
