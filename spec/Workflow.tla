------------------------------ MODULE Workflow ------------------------------
(* The declarative side of a workflow: abstract syntax, the dependency graph its text implies (ExpectedDAG) and
   what each consumer must observe (TreeCheck).  Independent of the engine's operational machinery: nothing here
   looks at the engine's own graph, only at the abstract workflow WF and at what producers emitted.

   Abstract syntax (deserialised from JSON written by the workflow generator, which renders the YAML from the same
   record):
     WF.steps   : step id -> [kind, outs (sequence of plugin output ids), fields : field name -> Tree]
     WF.outputs : output id -> Tree
   Tree:
     [t |-> "lit",   leaves |-> << [p |-> path, v |-> string] >>]              literal value, flattened
     [t |-> "ref",   refs |-> <<node ids>>, mode |-> "path" | "opaque", src, sub] plain !expr
     [t |-> "map",   kids |-> [key |-> Tree]]      [t |-> "list", kids |-> <<Tree>>]
     [t |-> "opt",   wait |-> BOOLEAN, e |-> ref Tree]                          !wait-optional / !soft-optional
     [t |-> "oneof", disc |-> string, opts |-> [key |-> Tree]]                  !oneof / !ordisabled
   Node ids are the engine's public ids: "input", "steps.S.STAGE", "steps.S.STAGE.OUT", "outputs.ID", and for tags
   the group ids "<node>.<field path>" and "<group>.<option>".                                                  *)
EXTENDS Naturals, Sequences, FiniteSets, TLC, Lifecycles

Range(f) == {f[x] : x \in DOMAIN f}
RECURSIVE Join(_)
Join(path) == IF path = <<>> THEN "" ELSE IF Len(path) = 1 THEN path[1] ELSE path[1] \o "." \o Join(Tail(path))

InputNode == "input"
StageNode(s, st) == "steps." \o s \o "." \o st
StageOutNode(s, st, o) == StageNode(s, st) \o "." \o o
OutputNode(id) == "outputs." \o id
GroupNode(cur, path) == cur \o "." \o Join(path)

EmptyDag == [nodes |-> {}, edges |-> {}]
DagUnion(S) == [nodes |-> UNION {d.nodes : d \in S}, edges |-> UNION {d.edges : d \in S}]

RECURSIVE TreeDag(_, _, _)
TreeDag(tree, cur, path) ==
  CASE tree.t = "lit"  -> EmptyDag
    [] tree.t = "ref"  -> [nodes |-> {}, edges |-> {<<cur, r, "and">> : r \in Range(tree.refs)}]
    [] tree.t = "map"  -> DagUnion({TreeDag(tree.kids[k], cur, Append(path, k)) : k \in DOMAIN tree.kids})
    [] tree.t = "list" -> DagUnion({TreeDag(tree.kids[i], cur, Append(path, ToString(i - 1))) : i \in DOMAIN tree.kids})
    [] tree.t = "opt"  ->
         LET G == GroupNode(cur, path) IN
         [nodes |-> {G},
          edges |-> {<<cur, G, IF tree.wait THEN "cand" ELSE "opt">>} \cup {<<G, r, "and">> : r \in Range(tree.e.refs)}]
    [] tree.t = "oneof" ->
         LET G    == GroupNode(cur, path)
             Opt(k) == G \o "." \o k
             subs == {TreeDag(tree.opts[k], Opt(k), <<>>) : k \in DOMAIN tree.opts}
         IN  [nodes |-> {G} \cup {Opt(k) : k \in DOMAIN tree.opts} \cup UNION {d.nodes : d \in subs},
              edges |-> {<<cur, G, "and">>} \cup {<<G, Opt(k), "or">> : k \in DOMAIN tree.opts} \cup UNION {d.edges : d \in subs}]

StepIds(wf) == DOMAIN wf.steps
OutputIds(wf) == DOMAIN wf.outputs
KindOf(wf, s) == wf.steps[s].kind
OutsOf(wf, s) == Range(wf.steps[s].outs)
Declared(wf, s, st) == DeclaredOf(KindOf(wf, s), st, OutsOf(wf, s))

\* the fields of a stage that the workflow text actually sets
StageFields(wf, s, st) == FieldsOf(KindOf(wf, s), st) \cap DOMAIN wf.steps[s].fields
StageTree(wf, s, st) == [t |-> "map", kids |-> [f \in StageFields(wf, s, st) |-> wf.steps[s].fields[f]]]

StepDag(wf, s) ==
  LET kind == KindOf(wf, s)
      stages == StagesOf(kind)
      life == UNION {{<<StageNode(s, nx[1]), StageNode(s, a), nx[2]>> : nx \in NextStagesOf(kind, a)} : a \in stages}
      outs == UNION {{<<StageOutNode(s, st, o), StageNode(s, st), "and">> : o \in Declared(wf, s, st)} : st \in stages}
  IN  [nodes |-> {StageNode(s, st) : st \in stages}
                 \cup UNION {{StageOutNode(s, st, o) : o \in Declared(wf, s, st)} : st \in stages},
       edges |-> life \cup outs]

FieldDags(wf, s) ==
  DagUnion(UNION {{TreeDag(wf.steps[s].fields[f], StageNode(s, st), <<>>) : f \in StageFields(wf, s, st)}
                   : st \in StagesOf(KindOf(wf, s))})

ExpectedDAG(wf) ==
  DagUnion({[nodes |-> {InputNode}, edges |-> {}]}
           \cup {StepDag(wf, s) : s \in StepIds(wf)}
           \cup {FieldDags(wf, s) : s \in StepIds(wf)}
           \cup {[nodes |-> {OutputNode(id)}, edges |-> {}] : id \in OutputIds(wf)}
           \cup {TreeDag(wf.outputs[id], OutputNode(id), <<>>) : id \in OutputIds(wf)})

\* edges as pairs, first-connection-wins is irrelevant here because the generator never emits two different types
\* for one pair; WellTyped is checked as an assumption by the specifications that use ExpectedDAG.
WellTyped(dag) == \A e1, e2 \in dag.edges : (e1[1] = e2[1] /\ e1[2] = e2[2]) => e1[3] = e2[3]
EdgeEndpointsExist(dag) == \A e \in dag.edges : e[1] \in dag.nodes /\ e[2] \in dag.nodes

\* Acyclicity by repeatedly removing nodes without inbound dependencies (what HasCycles does)
RECURSIVE Peel(_, _)
Peel(nodes, edges) ==
  LET free == {n \in nodes : ~\E e \in edges : e[1] = n /\ e[2] \in nodes}
  IN  IF free = {} THEN nodes ELSE Peel(nodes \ free, edges)
Acyclic(dag) == Peel(dag.nodes, dag.edges) = {}

-----------------------------------------------------------------------------
(* What a consumer must observe.  obs is the set of leaves <<path, value>> the consumer received (a stage input
   or a workflow output, flattened); data is the set of leaves <<node, path, value>> the producers emitted;
   st is the current resolution status per node, stPre the status when the handler that evaluates began.
   TreeCheck returns the set of violated rules <<property, rule, where>>.                                        *)

IsPrefix(p, q) == Len(p) <= Len(q) /\ SubSeq(q, 1, Len(p)) = p
Under(obs, p) == {o \in obs : IsPrefix(p, o[1])}
Strip(q, n) == SubSeq(q, n + 1, Len(q))

RefExpected(tree, dpath, data) ==
  {<<dpath \o Strip(d[2], Len(tree.sub)), d[3]>> : d \in {x \in data : x[1] = tree.src /\ IsPrefix(tree.sub, x[2])}}

RefCheck(tree, dpath, obs, st, data, prop) ==
  LET unresolved == {r \in Range(tree.refs) : st[r] # "R"} IN
  (IF unresolved # {} THEN {<<"C02", "source-not-produced", Join(dpath)>>} ELSE {})
  \cup (IF tree.mode = "path" /\ unresolved = {} /\ Under(obs, dpath) # RefExpected(tree, dpath, data)
          THEN {<<prop, "value-differs-from-source", Join(dpath)>>} ELSE {})

RECURSIVE TreeCheck(_, _, _, _, _, _, _, _, _)
TreeCheck(tree, cur, npath, dpath, extra, obs, st, stPre, data) ==
  CASE tree.t = "lit" ->
         IF Under(obs, dpath) # {<<dpath \o lf.p, lf.v>> : lf \in Range(tree.leaves)}
           THEN {<<"C02", "literal-differs", Join(dpath)>>} ELSE {}
    [] tree.t = "ref" -> RefCheck(tree, dpath, obs, st, data, "C02")
    [] tree.t = "map" ->
         LET keys == DOMAIN tree.kids
             foreign == {o \in Under(obs, dpath) : Len(o[1]) > Len(dpath) /\ o[1][Len(dpath) + 1] \notin keys \cup extra}
         IN  (IF foreign # {} THEN {<<"C02", "foreign-value", Join(dpath)>>} ELSE {})
             \cup UNION {TreeCheck(tree.kids[k], cur, Append(npath, k), Append(dpath, k), {}, obs, st, stPre, data) : k \in keys}
    [] tree.t = "list" ->
         LET idx == {ToString(i - 1) : i \in DOMAIN tree.kids}
             foreign == {o \in Under(obs, dpath) : Len(o[1]) > Len(dpath) /\ o[1][Len(dpath) + 1] \notin idx}
         IN  (IF foreign # {} /\ tree.kids # <<>> THEN {<<"C02", "foreign-value", Join(dpath)>>} ELSE {})
             \cup UNION {TreeCheck(tree.kids[i], cur, Append(npath, ToString(i - 1)), Append(dpath, ToString(i - 1)), {}, obs, st, stPre, data)
                          : i \in DOMAIN tree.kids}
    [] tree.t = "opt" ->
         LET G        == GroupNode(cur, npath)
             refs     == Range(tree.e.refs)
             srcOK    == \A r \in refs : st[r] = "R"
             \* the sources are decided once all of them finished, or as soon as one of them can no longer be produced
             decided  == (\A r \in refs : st[r] # "W") \/ (\E r \in refs : st[r] = "U")
             present  == Under(obs, dpath) # {}
             valueBad == present /\ srcOK /\ tree.e.mode = "path" /\ Under(obs, dpath) # RefExpected(tree.e, dpath, data)
         IN  IF tree.wait
               THEN (IF ~decided THEN {<<"C15", "wait-optional-evaluated-before-source-finished", Join(dpath)>>} ELSE {})
                    \cup (IF decided /\ present # srcOK THEN {<<"C15", "wait-optional-presence", Join(dpath)>>} ELSE {})
                    \cup (IF valueBad THEN {<<"C15", "wait-optional-value", Join(dpath)>>} ELSE {})
               ELSE (IF present /\ ~srcOK THEN {<<"C15", "soft-optional-present-without-source", Join(dpath)>>} ELSE {})
                    \cup (IF ~present /\ stPre[G] = "R" THEN {<<"C15", "soft-optional-dropped", Join(dpath)>>} ELSE {})
                    \cup (IF valueBad THEN {<<"C15", "soft-optional-value", Join(dpath)>>} ELSE {})
    [] tree.t = "oneof" ->
         LET G      == GroupNode(cur, npath)
             dleaf  == {o \in obs : o[1] = Append(dpath, tree.disc)}
             chosen == {o[2] : o \in dleaf}
         IN  IF Cardinality(chosen) # 1 \/ ~(chosen \subseteq DOMAIN tree.opts)
               THEN {<<"C15", "oneof-discriminator", Join(dpath)>>}
               ELSE LET k == CHOOSE x \in chosen : TRUE
                        optNode == G \o "." \o k
                    IN  (IF st[optNode] # "R" THEN {<<"C15", "oneof-option-not-produced", Join(dpath)>>} ELSE {})
                        \cup TreeCheck(tree.opts[k], optNode, <<>>, dpath, {}, obs \ dleaf, st, stPre, data)

\* every reference a node needs before it may be evaluated (hard requirements only)
RECURSIVE RequiredRefs(_)
RequiredRefs(tree) ==
  CASE tree.t = "ref"  -> Range(tree.refs)
    [] tree.t = "map"  -> UNION {RequiredRefs(tree.kids[k]) : k \in DOMAIN tree.kids}
    [] tree.t = "list" -> UNION {RequiredRefs(tree.kids[i]) : i \in DOMAIN tree.kids}
    [] OTHER -> {}
\* inferred schema of a map-valued field: a key is optional exactly when its value carries an optional tag
RequiredKeys(tree) == IF tree.t = "map" THEN {k \in DOMAIN tree.kids : tree.kids[k].t # "opt"} ELSE {}
=============================================================================
