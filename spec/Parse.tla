-------------------------------- MODULE Parse --------------------------------
(* Parsing (C11).  Two parts.
   1. Structural corruption space: a valid workflow (and input) document is a tree; TLC enumerates the product of
      the key paths of the base document (read from the case file) and the YAML shapes a node can be replaced by.
      The required behaviour of every case is the same: the engine returns (a workflow or an error) - it never
      crashes and never fails to return.
   2. Sub-workflow discovery over a file reference graph (engine.SubworkflowCache): files refer to sub-workflow
      files through loop steps; the specification of discovery is a terminating fixpoint: it succeeds iff every
      transitively referenced file exists and no file (transitively) refers to itself, and then yields exactly the
      reachable set.  TLC enumerates all reference graphs over a small file universe, checks termination of the
      fixpoint and exports the verdict per graph for comparison with the real engine.                           *)
EXTENDS Naturals, Sequences, FiniteSets, TLC, Json
CONSTANT CaseFile
Spec0 == JsonDeserialize(CaseFile)     \* [paths |-> <<path strings>>, shapes |-> <<shape names>>, files |-> <<file names>>]
Range(f) == {f[x] : x \in DOMAIN f}
Paths == Range(Spec0.paths)
Shapes == Range(Spec0.shapes)
Files == Range(Spec0.files)            \* "main" is the root; the others may or may not exist
Root == "main"

\* ---- part 2: discovery ------------------------------------------------------------------------------------------
\* a graph: refs : existing file -> set of file names it refers to (names outside DOMAIN are missing files)
Graphs == UNION {[E -> SUBSET Files] : E \in {X \in SUBSET Files : Root \in X}}
RECURSIVE ReachN(_, _, _)
ReachN(g, S, n) == IF n = 0 THEN S ELSE
  LET nxt == S \cup UNION {g[f] : f \in S \cap DOMAIN g} IN IF nxt = S THEN S ELSE ReachN(g, nxt, n - 1)
Reach(g) == ReachN(g, {Root}, Cardinality(Files) + 1)
Missing(g) == Reach(g) \ DOMAIN g
\* f refers (transitively) to itself
RECURSIVE ReachFrom(_, _, _)
ReachFrom(g, S, n) == IF n = 0 THEN S ELSE
  LET nxt == S \cup UNION {g[f] : f \in S \cap DOMAIN g} IN IF nxt = S THEN S ELSE ReachFrom(g, nxt, n - 1)
Cyclic(g) == \E f \in Reach(g) \cap DOMAIN g : f \in ReachFrom(g, g[f], Cardinality(Files) + 1)
DiscoveryOK(g) == Missing(g) = {} /\ ~Cyclic(g)

VARIABLES mode, todo, gi
vars == <<mode, todo, gi>>
GraphSeq == LET RECURSIVE F(_) F(S) == IF S = {} THEN <<>> ELSE LET x == CHOOSE y \in S : TRUE IN <<x>> \o F(S \ {x}) IN F(Graphs)
Init == mode = "corruptions" /\ todo = Paths \X Shapes /\ gi = 1
NextCorruption == /\ mode = "corruptions" /\ todo # {}
                  /\ LET c == CHOOSE x \in todo : TRUE IN
                       /\ PrintT(<<"CORRUPT", c[1], c[2]>>)
                       /\ todo' = todo \ {c}
                  /\ UNCHANGED <<mode, gi>>
Switch == mode = "corruptions" /\ todo = {} /\ mode' = "graphs" /\ UNCHANGED <<todo, gi>>
NextGraph == /\ mode = "graphs" /\ gi <= Len(GraphSeq)
             /\ LET g == GraphSeq[gi] IN
                  PrintT(<<"GRAPH", ToJson([e \in DOMAIN g |-> LET RECURSIVE Q(_) Q(S) == IF S = {} THEN <<>> ELSE LET x == CHOOSE y \in S : TRUE IN <<x>> \o Q(S \ {x}) IN Q(g[e])]),
                           DiscoveryOK(g), Cardinality(Reach(g))>>)
             /\ gi' = gi + 1 /\ UNCHANGED <<mode, todo>>
Next == NextCorruption \/ Switch \/ NextGraph
Spec == Init /\ [][Next]_vars
\* the fixpoint terminates within |Files| + 1 rounds for every graph (checked as an assumption over the whole universe)
ASSUME \A g \in Graphs : LET r == Reach(g) IN r = r \cup UNION {g[f] : f \in r \cap DOMAIN g}
=============================================================================
