------------------------------ MODULE FileCache ------------------------------
(* The engine entry point (C20): file resolution and result classification.
   A configuration is a workflow tree on disk (nesting depth of loop steps, the directories the nested files live in, optionally a sub-workflow shared by two
   parents), the output the scripted steps make producible, whether the workflow carries an explicit output schema
   (with either error flag) and how the caller names the context directory (absolute or relative) and from which
   working directory.  The specification of the API is independent of everything but the file contents:
       output id     = the producible output                                  (same as direct execution)
       error flag    = IF explicit schema THEN its declared flag ELSE (id = "error")
       files found   = exactly the sub-workflow files reachable through loop steps, wherever the caller stands.
   TLC enumerates every configuration and exports the expected (id, flag); the CLI exit-code table is part of it. *)
EXTENDS Naturals, Sequences, FiniteSets, TLC, Json
Depths == 1..3
Outs == {"success", "error", "other"}
Explicit == {"none", "flag_true", "flag_false"}
DirModes == {"abs", "rel"}
Cwds == {"ctx", "parent", "elsewhere"}
\* where the nested files live: first letter = the depth-2 file, second = the depth-3 file; r = context root, s = sub/.
\* Every reference, whichever file contains it, is written relative to the context directory.
Layouts == {"rr", "rs", "sr", "ss"}
LayoutsOf(d) == IF d = 1 THEN {"rr"} ELSE IF d = 2 THEN {"rr", "sr"} ELSE Layouts
\* how a reference to a sub-workflow file is spelled: as the plain relative path, or with a leading "./" (the same file)
Spellings == {"plain", "dot"}
Configs == {c \in [depth : Depths, layout : Layouts, shared : BOOLEAN, out : Outs, explicit : Explicit, dir : DirModes, cwd : Cwds, spelling : Spellings] :
              c.layout \in LayoutsOf(c.depth) /\ (c.depth = 1 /\ ~c.shared => c.spelling = "plain")}
L2(c) == IF c.layout \in {"sr", "ss"} THEN "sub/l2.yaml" ELSE "l2.yaml"
L3(c) == IF c.layout \in {"rs", "ss"} THEN "sub/l3.yaml" ELSE "l3.yaml"
ErrorFlag(c) == IF c.explicit = "none" THEN c.out = "error" ELSE c.explicit = "flag_true"
ExpectedId(c) == c.out
\* a relative context directory is resolved against the caller's working directory, so it only names the context
\* directory when the caller stands where the path is relative to; the harness passes a path relative to cwd.
FilesNeeded(c) == {"workflow.yaml"} \cup (IF c.depth >= 2 THEN {L2(c)} ELSE {}) \cup (IF c.depth >= 3 THEN {L3(c)} ELSE {})
                  \cup (IF c.shared THEN {"shared.yaml"} ELSE {})
\* CLI exit codes (cmd/arcaflow/main.go)
ExitCode(parseOK, runErr, flag) == IF ~parseOK THEN 1 ELSE IF runErr THEN 3 ELSE IF flag THEN 2 ELSE 0
\* The command-line program (cmd/arcaflow): what it prints and the exit code it ends with.  The program goes through
\* fixed phases - flags, configuration, context files, engine, parse, (namespaces), run, print - and a fault ends it at
\* the phase it belongs to:
\*   version              prints the version and ends (0) before anything is read - even a missing workflow goes unnoticed
\*   missing-config / invalid-config    the configuration file cannot be read / does not satisfy the configuration schema (1)
\*   missing-input        the input file named on the command line does not exist (1)
\*   missing-workflow / invalid-workflow    nothing is parsed (1)
\*   get-namespaces       the workflow is parsed, the object namespaces are printed, nothing runs (0)
\*   invalid-input        the input does not satisfy the workflow's input schema: the run fails (3)
\*   run-fails            the only step crashes and no output is producible (3)
\*   none                 the run returns the producible output; the printed id and data are those of direct execution
Faults == {"none", "missing-workflow", "invalid-workflow", "run-fails", "version", "missing-config", "invalid-config",
           "missing-input", "invalid-input", "get-namespaces"}
PreParseFaults == {"missing-config", "invalid-config", "missing-input", "missing-workflow", "invalid-workflow"}
RunFaults == {"run-fails", "invalid-input"}
CliCases == [fault : Faults, out : Outs, explicit : Explicit, dir : DirModes]
CliExit(c) == IF c.fault \in {"version", "get-namespaces"} THEN 0
              ELSE ExitCode(c.fault \notin PreParseFaults, c.fault \in RunFaults,
                            IF c.explicit = "none" THEN c.out = "error" ELSE c.explicit = "flag_true")
\* what appears on the standard output
CliStdout(c) == CASE c.fault = "none" -> "result" [] c.fault = "version" -> "version"
                  [] c.fault = "get-namespaces" -> "namespaces" [] OTHER -> "nothing"
CliPrints(c) == c.fault = "none"
\* whether the workflow's step may be executed at all
CliExecutes(c) == c.fault \in {"none", "run-fails"}
VARIABLES todo, ctodo
Init == todo = Configs /\ ctodo = CliCases
Next == todo # {} /\ LET c == CHOOSE x \in todo : TRUE IN
          /\ PrintT(<<"CONFIG", ToJson([c |-> c, l2 |-> L2(c), l3 |-> L3(c), id |-> ExpectedId(c), flag |-> ErrorFlag(c), exit |-> ExitCode(TRUE, FALSE, ErrorFlag(c))])>>)
          /\ todo' = todo \ {c} /\ UNCHANGED ctodo
NextCli == todo = {} /\ ctodo # {} /\ LET c == CHOOSE x \in ctodo : TRUE IN
          /\ PrintT(<<"CLI", ToJson([c |-> c, exit |-> CliExit(c), prints |-> CliPrints(c), stdout |-> CliStdout(c), executes |-> CliExecutes(c), id |-> c.out])>>)
          /\ ctodo' = ctodo \ {c} /\ UNCHANGED todo
Spec == Init /\ [][Next \/ NextCli]_<<todo, ctodo>>
\* the expectation does not depend on how the caller names the directory, where it stands, or on nesting
Independent == \A a, b \in Configs : (a.out = b.out /\ a.explicit = b.explicit) => (ExpectedId(a) = ExpectedId(b) /\ ErrorFlag(a) = ErrorFlag(b))
ASSUME Independent
=============================================================================
