------------------------------ MODULE FileCache ------------------------------
(* The engine entry point (C20): file resolution and result classification.
   A configuration is a workflow tree on disk (nesting depth of loop steps, optionally a sub-workflow shared by two
   parents), the output the scripted steps make producible, whether the workflow carries an explicit output schema
   (with either error flag) and how the caller names the context directory (absolute or relative) and from which
   working directory.  The specification of the API is independent of everything but the file contents:
       output id     = the producible output                                  (same as direct execution)
       error flag    = IF explicit schema THEN its declared flag ELSE (id = "error")
       files found   = exactly the sub-workflow files reachable through loop steps, wherever the caller stands.
   TLC enumerates every configuration and exports the expected (id, flag); the CLI exit-code table is part of it. *)
EXTENDS Naturals, Sequences, FiniteSets, TLC, Json
Depths == 1..3
Outs == {"success", "error", "other"}
Explicit == {"none", "flag_true", "flag_false"}
DirModes == {"abs", "rel"}
Cwds == {"ctx", "parent", "elsewhere"}
Configs == [depth : Depths, shared : BOOLEAN, out : Outs, explicit : Explicit, dir : DirModes, cwd : Cwds]
ErrorFlag(c) == IF c.explicit = "none" THEN c.out = "error" ELSE c.explicit = "flag_true"
ExpectedId(c) == c.out
\* a relative context directory is resolved against the caller's working directory, so it only names the context
\* directory when the caller stands where the path is relative to; the harness passes a path relative to cwd.
FilesNeeded(c) == {"workflow.yaml"} \cup (IF c.depth >= 2 THEN {"l2.yaml"} ELSE {}) \cup (IF c.depth >= 3 THEN {"sub/l3.yaml"} ELSE {})
                  \cup (IF c.shared THEN {"shared.yaml"} ELSE {})
\* CLI exit codes (cmd/arcaflow/main.go)
ExitCode(parseOK, runErr, flag) == IF ~parseOK THEN 1 ELSE IF runErr THEN 3 ELSE IF flag THEN 2 ELSE 0
VARIABLE todo
Init == todo = Configs
Next == todo # {} /\ LET c == CHOOSE x \in todo : TRUE IN
          /\ PrintT(<<"CONFIG", ToJson([c |-> c, id |-> ExpectedId(c), flag |-> ErrorFlag(c), exit |-> ExitCode(TRUE, FALSE, ErrorFlag(c))])>>)
          /\ todo' = todo \ {c}
Spec == Init /\ [][Next]_todo
\* the expectation does not depend on how the caller names the directory, where it stands, or on nesting
Independent == \A a, b \in Configs : (a.out = b.out /\ a.explicit = b.explicit) => (ExpectedId(a) = ExpectedId(b) /\ ErrorFlag(a) = ErrorFlag(b))
ASSUME Independent
=============================================================================
