// Command verifh is the verification harness for arcaflow-engine. It is compiled inside the engine module through
// a build overlay (no file is added to the repository) with -tags verif.
package main

import (
	"fmt"
	"os"
)

func main() {
	if len(os.Args) < 2 {
		fmt.Fprintln(os.Stderr, "usage: verifh <run|...> <file>")
		os.Exit(2)
	}
	switch os.Args[1] {
	case "run":
		os.Exit(cmdRun(os.Args[2]))
	case "step":
		os.Exit(cmdStep(os.Args[2]))
	case "prep":
		os.Exit(cmdPrep(os.Args[2]))
	case "parse":
		os.Exit(cmdParse(os.Args[2]))
	case "builtins":
		os.Exit(cmdBuiltins(os.Args[2]))
	default:
		fmt.Fprintln(os.Stderr, "unknown command", os.Args[1])
		os.Exit(2)
	}
}
