package main

// Step-level driver (C12): one plugin step is started through the provider API with a recording
// StageChangeHandler and driven by a script of environment actions (provide inputs in any order and multiplicity,
// Close, ForceClose, release or fail deployment, plugin result / crash), sequentially or overlapped.

import (
	"encoding/json"
	"fmt"
	"os"
	"sync"
	"time"

	log "go.arcalot.io/log/v2"
	"go.flow.arcalot.io/deployer"
	deployerregistry "go.flow.arcalot.io/deployer/registry"
	"go.flow.arcalot.io/engine/internal/step"
	"go.flow.arcalot.io/engine/internal/step/plugin"
)

type stepAction struct {
	Op    string `json:"op"`    // provide | close | forceclose | sleep | release | state
	Stage string `json:"stage"` // for provide
	Val   *bool  `json:"val"`   // enabled value / stop_if value
	ID    string `json:"id"`    // closer identity
	MS    int    `json:"ms"`
	Gate  string `json:"gate"`
	Lane  int    `json:"lane"` // overlapped mode: actions of one lane run in order on their own goroutine
}

type stepScenario struct {
	PStep     string                 `json:"pstep"`
	Src       string                 `json:"src"`
	Script    map[string]*stepScript `json:"script"`
	Actions   []stepAction           `json:"actions"`
	Overlap   bool                   `json:"overlap"`
	GapMS     int                    `json:"gap_ms"`
	Schedule  *schedule              `json:"schedule"`
	TimeoutMS int                    `json:"timeout_ms"`
	TraceOut  string                 `json:"trace_out"`
	ResultOut string                 `json:"result_out"`
}

type stepResult struct {
	Returns  []map[string]any `json:"returns"` // per action: op, err, ms
	Final    string           `json:"final_state"`
	Stage    string           `json:"final_stage"`
	Leaks    []string         `json:"leaks"`
	Watchdog bool             `json:"watchdog"`
	Stacks   string           `json:"stacks,omitempty"`
	Err      string           `json:"err"`
}

type recHandler struct{ s *sink }

func (h recHandler) OnStageChange(st step.RunningStep, prev *string, outID *string, out *any, newStage string, inputAvailable bool, _ *sync.WaitGroup) {
	h.s.note("Notif", "obj", st, "k", "SC", "prev", prev, "new", newStage, "out", outID, "avail", inputAvailable)
}
func (h recHandler) OnStepComplete(st step.RunningStep, prev string, outID *string, out *any, _ *sync.WaitGroup) {
	h.s.note("Notif", "obj", st, "k", "CO", "prev", prev, "new", "", "out", outID)
}
func (h recHandler) OnStepStageFailure(st step.RunningStep, stage string, _ *sync.WaitGroup, err error) {
	h.s.note("Notif", "obj", st, "k", "F", "prev", stage, "new", "", "out", nil)
}

func cmdStep(path string) int {
	raw, err := os.ReadFile(path)
	if err != nil {
		fmt.Fprintln(os.Stderr, err)
		return 2
	}
	var sc stepScenario
	if err := json.Unmarshal(raw, &sc); err != nil {
		fmt.Fprintln(os.Stderr, "bad scenario:", err)
		return 2
	}
	if sc.TimeoutMS == 0 {
		sc.TimeoutMS = 20000
	}
	if sc.Src == "" {
		sc.Src = "a"
	}
	if sc.PStep == "" {
		sc.PStep = "work"
	}
	snk := newSink(sc.Schedule)
	snk.install()
	book := newScriptBook(sc.Script)
	res := &stepResult{}
	var resMu sync.Mutex
	finish := func(code int) int {
		if sc.TraceOut != "" {
			_ = snk.writeTrace(sc.TraceOut)
		}
		writeJSON(sc.ResultOut, res)
		return code
	}
	done := make(chan struct{})
	go func() {
		select {
		case <-done:
		case <-time.After(time.Duration(sc.TimeoutMS) * time.Millisecond):
			all, _ := engineStacks()
			resMu.Lock()
			res.Watchdog = true
			res.Stacks = all
			snk.disabled = true
			os.Exit(finish(3))
		}
	}()
	logger := log.New(log.Config{Level: log.LevelError, Destination: log.DestinationStdout})
	dreg := deployerregistry.New(deployer.Any[*scriptedConfig](scriptedFactory{book: book}))
	prov, err := plugin.New(logger, dreg, map[string]any{"scripted": map[string]any{"deployer_name": "scripted"}})
	if err != nil {
		res.Err = err.Error()
		return finish(0)
	}
	runnable, err := prov.LoadSchema(map[string]any{"plugin": map[string]any{"src": sc.Src, "deployment_type": "scripted"}}, map[string][]byte{})
	if err != nil {
		res.Err = "loadschema: " + err.Error()
		return finish(0)
	}
	book.phase.Store("run")
	rs, err := runnable.Start(map[string]any{"step": sc.PStep}, sc.Src, recHandler{snk})
	if err != nil {
		res.Err = "start: " + err.Error()
		return finish(0)
	}
	do := func(idx int, a stepAction) {
		t0 := time.Now()
		var aerr error
		switch a.Op {
		case "provide":
			in := map[string]any{}
			switch a.Stage {
			case "deploy":
				in["deploy"] = nil
			case "enabling":
				if a.Val != nil {
					in["enabled"] = *a.Val
				}
			case "starting":
				in["input"] = map[any]any{"id": sc.Src}
				in["closure_wait_timeout"] = int64(60)
			case "cancelled":
				if a.Val != nil {
					in["stop_if"] = *a.Val
				}
			}
			snk.note("EnvCall", "op", "provide", "stage", a.Stage, "idx", idx)
			aerr = rs.ProvideStageInput(a.Stage, in)
			snk.note("EnvRet", "op", "provide", "stage", a.Stage, "idx", idx, "err", aerr)
		case "close":
			snk.note("EnvCall", "op", "close", "id", a.ID, "idx", idx)
			aerr = rs.Close()
			snk.note("EnvRet", "op", "close", "id", a.ID, "idx", idx, "err", aerr)
		case "forceclose":
			snk.note("EnvCall", "op", "forceclose", "id", a.ID, "idx", idx)
			aerr = rs.ForceClose()
			snk.note("EnvRet", "op", "forceclose", "id", a.ID, "idx", idx, "err", aerr)
		case "sleep":
			time.Sleep(time.Duration(a.MS) * time.Millisecond)
		case "release":
			book.release(a.Gate)
		case "state":
			snk.note("EnvState", "state", string(rs.State()), "stage", rs.CurrentStage(), "idx", idx)
		}
		r := map[string]any{"op": a.Op, "idx": idx, "ms": float64(time.Since(t0).Microseconds()) / 1000}
		if aerr != nil {
			r["err"] = aerr.Error()
		}
		resMu.Lock()
		res.Returns = append(res.Returns, r)
		resMu.Unlock()
	}
	quiesce := func() {
		// wait until no new event arrives for a little while (the step reached its next blocking point)
		last := -1
		stable := 0
		for i := 0; i < 200 && stable < 3; i++ {
			snk.mu.Lock()
			n := len(snk.events)
			snk.mu.Unlock()
			if n == last {
				stable++
			} else {
				stable = 0
				last = n
			}
			time.Sleep(time.Millisecond)
		}
	}
	if sc.Overlap {
		lanes := map[int][]int{}
		for i, a := range sc.Actions {
			lanes[a.Lane] = append(lanes[a.Lane], i)
		}
		var wg sync.WaitGroup
		for _, idxs := range lanes {
			idxs := idxs
			wg.Add(1)
			go func() {
				defer wg.Done()
				for _, i := range idxs {
					do(i, sc.Actions[i])
				}
			}()
		}
		wg.Wait()
	} else {
		for i, a := range sc.Actions {
			do(i, a)
			if sc.GapMS >= 0 {
				quiesce()
			}
		}
	}
	quiesce()
	res.Final = string(rs.State())
	res.Stage = rs.CurrentStage()
	// always end with a ForceClose so that nothing is left behind, then census
	snk.note("EnvCall", "op", "forceclose", "id", "final", "idx", -1)
	ferr := rs.ForceClose()
	snk.note("EnvRet", "op", "forceclose", "id", "final", "idx", -1, "err", ferr)
	snk.note("EnvFinal", "state", string(rs.State()), "stage", rs.CurrentStage())
	close(done)
	_, leaked := settle(1500)
	res.Leaks = leaked
	return finish(0)
}
