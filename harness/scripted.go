package main

// Scripted deployer and scripted plugin: plugins run in-process over real ATP (pipes), so no container runtime is
// needed and every outcome is under the control of the scenario.

import (
	"context"
	"fmt"
	"io"
	"os"
	"strconv"
	"sync"
	"sync/atomic"
	"time"

	log "go.arcalot.io/log/v2"
	"go.flow.arcalot.io/deployer"
	"go.flow.arcalot.io/pluginsdk/atp"
	"go.flow.arcalot.io/pluginsdk/plugin"
	"go.flow.arcalot.io/pluginsdk/schema"
)

// ledger of the scripted deployer for runs of the command-line program (whose hook sink is off): one line per
// deployment, closed connection and started execution, appended to the file named by VERIF_EXEC_LOG
var execLogPath = os.Getenv("VERIF_EXEC_LOG")
var execLogMu sync.Mutex

func ledger(parts ...string) {
	if execLogPath == "" {
		return
	}
	execLogMu.Lock()
	defer execLogMu.Unlock()
	f, err := os.OpenFile(execLogPath, os.O_APPEND|os.O_CREATE|os.O_WRONLY, 0o644)
	if err != nil {
		return
	}
	line := ""
	for i, x := range parts {
		if i > 0 {
			line += " "
		}
		line += x
	}
	_, _ = f.WriteString(line + "\n")
	_ = f.Close()
}

// ---- script ------------------------------------------------------------------------------------------------------

type deployScript struct {
	Fail     bool   `json:"fail"`
	DelayMS  int    `json:"delay_ms"`
	WaitGate string `json:"wait_gate"` // Deploy blocks until the harness releases this gate (or the context ends)
	// Connection faults (used for schema probes and start failures)
	FailRead  bool `json:"fail_read"`  // reads fail immediately (schema cannot be read)
	FailWrite bool `json:"fail_write"` // writes fail (bad connection)
	FailClose bool `json:"fail_close"` // Close() returns an error (after closing)
	// writes after the n-th fail (0 = never): 1 lets the schema request through and fails the "client done" message
	FailWriteAfter int `json:"fail_write_after"`
}

type execScript struct {
	Out      string   `json:"out"`       // output id to return ("success", "alt", "error", "cancelled_early", or undeclared e.g. "bogus")
	DelayMS  int      `json:"delay_ms"`  // sleep before returning
	Hang     bool     `json:"hang"`      // never return by itself (until cancel signal / server context done)
	Crash    bool     `json:"crash"`     // the plugin dies: its connection breaks without a result
	OnCancel string   `json:"on_cancel"` // "" = return cancelled_early when the cancel signal arrives; "ignore" = keep going
	BadData  bool     `json:"bad_data"`  // return data that does not match the declared output schema
	N        int64    `json:"n"`         // value of output field n
	L        []string `json:"l"`         // value of output field l
	WaitGate string   `json:"wait_gate"` // wait until the harness releases this named gate
}

type stepScript struct {
	Deploy      deployScript `json:"deploy"`
	ProbeDeploy deployScript `json:"probe_deploy"`
	Exec        execScript   `json:"exec"`
	// Per-key overrides (key = the plugin input field "id"); used by foreach items
	ExecByID map[string]execScript `json:"exec_by_id"`
}

type scriptBook struct {
	mu      sync.Mutex
	bySrc   map[string]*stepScript
	gates   map[string]chan struct{}
	phase   atomic.Value // "probe" | "run"
	connSeq atomic.Int64
	// concurrency high-water marks per src
	running map[string]int
	maxRun  map[string]int
}

func newScriptBook(m map[string]*stepScript) *scriptBook {
	b := &scriptBook{bySrc: m, gates: map[string]chan struct{}{}, running: map[string]int{}, maxRun: map[string]int{}}
	if b.bySrc == nil {
		b.bySrc = map[string]*stepScript{}
	}
	b.phase.Store("probe")
	return b
}

func (b *scriptBook) forSrc(src string) *stepScript {
	b.mu.Lock()
	defer b.mu.Unlock()
	if s, ok := b.bySrc[src]; ok {
		return s
	}
	return &stepScript{Exec: execScript{Out: "success"}}
}

func (b *scriptBook) gateChan(name string) chan struct{} {
	b.mu.Lock()
	defer b.mu.Unlock()
	c, ok := b.gates[name]
	if !ok {
		c = make(chan struct{})
		b.gates[name] = c
	}
	return c
}

func (b *scriptBook) release(name string) {
	c := b.gateChan(name)
	b.mu.Lock()
	defer b.mu.Unlock()
	select {
	case <-c:
	default:
		close(c)
	}
}

// ---- deployer ----------------------------------------------------------------------------------------------------

type scriptedConfig struct {
	Mode string `json:"mode"`
	Tag  any    `json:"tag"`
}

var scriptedConfigSchema = schema.NewTypedScopeSchema[*scriptedConfig](
	schema.NewStructMappedObjectSchema[*scriptedConfig](
		"ScriptedConfig",
		map[string]*schema.PropertySchema{
			"mode": schema.NewPropertySchema(schema.NewStringSchema(nil, nil, nil), nil, false, nil, nil, nil, schema.PointerTo("\"ok\""), nil),
			"tag":  schema.NewPropertySchema(schema.NewAnySchema(), nil, false, nil, nil, nil, nil, nil),
		},
	),
)

type scriptedFactory struct{ book *scriptBook }

func (f scriptedFactory) Name() string                            { return "scripted" }
func (f scriptedFactory) DeploymentType() deployer.DeploymentType { return "scripted" }
func (f scriptedFactory) ConfigurationSchema() *schema.TypedScopeSchema[*scriptedConfig] {
	return scriptedConfigSchema
}
func (f scriptedFactory) Create(config *scriptedConfig, _ log.Logger) (deployer.Connector, error) {
	return &scriptedConnector{book: f.book, cfg: config}, nil
}

type scriptedConnector struct {
	book *scriptBook
	cfg  *scriptedConfig
}

type scriptedConn struct {
	id        string
	src       string
	phase     string
	reader    *io.PipeReader
	writer    *io.PipeWriter
	cancel    context.CancelFunc
	wg        *sync.WaitGroup
	script    deployScript
	closeOnce sync.Once
	closeErr  error
	writes    atomic.Int64
}

func (p *scriptedConn) Read(buf []byte) (int, error) {
	if p.script.FailRead {
		return 0, fmt.Errorf("scripted read failure")
	}
	return p.reader.Read(buf)
}
func (p *scriptedConn) Write(buf []byte) (int, error) {
	if p.script.FailWrite {
		return 0, fmt.Errorf("scripted write failure")
	}
	if p.script.FailWriteAfter > 0 && int(p.writes.Add(1)) > p.script.FailWriteAfter {
		return 0, fmt.Errorf("scripted write failure after %d writes", p.script.FailWriteAfter)
	}
	return p.writer.Write(buf)
}
func (p *scriptedConn) Close() error {
	p.closeOnce.Do(func() {
		p.cancel()
		e1 := p.reader.Close()
		e2 := p.writer.Close()
		p.wg.Wait()
		theSink.note("XConnClose", "conn", p.id, "src", p.src, "phase", p.phase)
		ledger("close", p.id, p.phase, p.src)
		if e1 != nil || e2 != nil {
			p.closeErr = fmt.Errorf("error while closing pipes (%v, %v)", e1, e2)
		}
		if p.script.FailClose {
			p.closeErr = fmt.Errorf("scripted close failure")
		}
	})
	return p.closeErr
}
func (p *scriptedConn) ID() string { return p.id }

func (c *scriptedConnector) Deploy(ctx context.Context, src string) (deployer.Plugin, error) {
	book := c.book
	phase := book.phase.Load().(string)
	st := book.forSrc(src)
	ds := st.Deploy
	if phase == "probe" {
		ds = st.ProbeDeploy
	}
	mode := "ok"
	if c.cfg != nil && c.cfg.Mode != "" {
		mode = c.cfg.Mode
	}
	var tag any
	if c.cfg != nil {
		tag = c.cfg.Tag
	}
	connID := "c" + strconv.FormatInt(book.connSeq.Add(1), 10)
	theSink.note("XDeployBegin", "conn", connID, "src", src, "phase", phase, "mode", mode, "data", tag)
	theSink.gate("x.deploy."+phase, []any{"step", src})
	if ds.DelayMS > 0 {
		select {
		case <-time.After(time.Duration(ds.DelayMS) * time.Millisecond):
		case <-ctx.Done():
		}
	}
	if ds.WaitGate != "" {
		select {
		case <-book.gateChan(ds.WaitGate):
		case <-ctx.Done():
		}
	}
	if ds.Fail || mode == "fail" {
		theSink.note("XDeployFail", "conn", connID, "src", src, "phase", phase)
		return nil, fmt.Errorf("scripted deployment failure for %s", src)
	}
	stdinSub, stdinWriter := io.Pipe()
	stdoutReader, stdoutSub := io.Pipe()
	pluginCtx, cancel := context.WithCancel(context.Background())
	wg := &sync.WaitGroup{}
	conn := &scriptedConn{id: connID, src: src, phase: phase, reader: stdoutReader, writer: stdinWriter, cancel: cancel, wg: wg, script: ds}
	kill := func() {
		// a dying container: both pipe ends break, nothing more is said over the protocol
		_ = stdoutSub.CloseWithError(fmt.Errorf("scripted plugin crash"))
		_ = stdinSub.CloseWithError(fmt.Errorf("scripted plugin crash"))
	}
	wg.Add(1)
	go func() {
		defer wg.Done()
		sch := newScriptedSchema(book, src, connID, kill)
		_ = atp.RunATPServer(pluginCtx, stdinSub, stdoutSub, sch)
	}()
	theSink.note("XDeploy", "conn", connID, "src", src, "phase", phase)
	ledger("deploy", connID, phase, src)
	return conn, nil
}

// ---- plugin ------------------------------------------------------------------------------------------------------

type workInput struct {
	ID   string   `json:"id"`
	Deps any      `json:"deps"`
	S    *string  `json:"s"`
	N    *int64   `json:"n"`
	B    *bool    `json:"b"`
	F    *float64 `json:"f"`
	L    []string `json:"l"`
}

type workOutput struct {
	Tok string   `json:"tok"`
	N   int64    `json:"n"`
	L   []string `json:"l"`
}

type badOutput struct {
	Tok int64 `json:"tok"`
}

type errOutput struct {
	Reason string `json:"reason"`
}

func prop(t schema.Type, required bool) *schema.PropertySchema {
	return schema.NewPropertySchema(t, nil, required, nil, nil, nil, nil, nil)
}

func workInputSchema() *schema.ScopeSchema {
	return schema.NewScopeSchema(schema.NewStructMappedObjectSchema[workInput]("WorkInput", map[string]*schema.PropertySchema{
		"id":   prop(schema.NewStringSchema(nil, nil, nil), true),
		"deps": prop(schema.NewAnySchema(), false),
		"s":    prop(schema.NewStringSchema(nil, nil, nil), false),
		"n":    prop(schema.NewIntSchema(nil, nil, nil), false),
		"b":    prop(schema.NewBoolSchema(), false),
		"f":    prop(schema.NewFloatSchema(nil, nil, nil), false),
		"l":    prop(schema.NewListSchema(schema.NewStringSchema(nil, nil, nil), nil, nil), false),
	}))
}

func workOutputSchema() *schema.ScopeSchema {
	return schema.NewScopeSchema(schema.NewStructMappedObjectSchema[workOutput]("WorkOutput", map[string]*schema.PropertySchema{
		"tok": prop(schema.NewStringSchema(nil, nil, nil), true),
		"n":   prop(schema.NewIntSchema(nil, nil, nil), true),
		"l":   prop(schema.NewListSchema(schema.NewStringSchema(nil, nil, nil), nil, nil), true),
	}))
}

func errOutputSchema() *schema.ScopeSchema {
	return schema.NewScopeSchema(schema.NewStructMappedObjectSchema[errOutput]("ErrOutput", map[string]*schema.PropertySchema{
		"reason": prop(schema.NewStringSchema(nil, nil, nil), true),
	}))
}

type workData struct {
	cancel chan struct{}
}

func workOutputs() map[string]*schema.StepOutputSchema {
	return map[string]*schema.StepOutputSchema{
		"success":         schema.NewStepOutputSchema(workOutputSchema(), nil, false),
		"alt":             schema.NewStepOutputSchema(workOutputSchema(), nil, false),
		"cancelled_early": schema.NewStepOutputSchema(workOutputSchema(), nil, false),
		"error":           schema.NewStepOutputSchema(errOutputSchema(), nil, true),
	}
}

func newScriptedSchema(book *scriptBook, src string, connID string, kill func()) *schema.CallableSchema {
	handler := func(ctx context.Context, d *workData, in workInput) (string, any) {
		st := book.forSrc(src)
		ex := st.Exec
		if o, ok := st.ExecByID[in.ID]; ok {
			ex = o
		}
		if ex.Out == "" {
			ex.Out = "success"
		}
		flat := leaves(map[string]any{"id": in.ID, "deps": in.Deps, "s": in.S, "n": in.N, "b": in.B, "f": in.F, "l": in.L})
		book.mu.Lock()
		book.running[src]++
		if book.running[src] > book.maxRun[src] {
			book.maxRun[src] = book.running[src]
		}
		cur := book.running[src]
		book.mu.Unlock()
		theSink.note("XExecStart", "src", src, "conn", connID, "id", in.ID, "input", flat, "concurrent", cur)
		ledger("exec", connID, src, in.ID)
		defer func() {
			book.mu.Lock()
			book.running[src]--
			book.mu.Unlock()
		}()
		finish := func(out string) (string, any) {
			tok := in.ID + "/" + out
			if in.S != nil {
				// makes values of different runs (different workflow inputs) distinguishable
				tok = in.ID + "~" + *in.S + "/" + out
			}
			theSink.note("XExecEnd", "src", src, "conn", connID, "id", in.ID, "out", out)
			if ex.BadData {
				return out, badOutput{Tok: 7}
			}
			if out == "error" {
				return out, errOutput{Reason: tok}
			}
			l := ex.L
			if l == nil {
				l = []string{}
			}
			return out, workOutput{Tok: tok, N: ex.N, L: l}
		}
		var cancelC <-chan struct{}
		if d != nil {
			cancelC = d.cancel
		}
		if ex.Crash {
			if ex.DelayMS > 0 {
				select {
				case <-time.After(time.Duration(ex.DelayMS) * time.Millisecond):
				case <-ctx.Done():
				}
			}
			theSink.note("XExecEnd", "src", src, "conn", connID, "id", in.ID, "out", "<crash>")
			kill()
			<-ctx.Done()
			return "success", workOutput{Tok: "dead", L: []string{}}
		}
		onCancel := func() (string, any, bool) {
			theSink.note("XSigRecv", "src", src, "conn", connID, "id", in.ID)
			if ex.OnCancel == "ignore" {
				return "", nil, false
			}
			o, dd := finish("cancelled_early")
			return o, dd, true
		}
		if ex.WaitGate != "" {
			g := book.gateChan(ex.WaitGate)
			for waiting := true; waiting; {
				select {
				case <-g:
					waiting = false
				case <-cancelC:
					if o, dd, ok := onCancel(); ok {
						return o, dd
					}
					cancelC = nil
				case <-ctx.Done():
					theSink.note("XExecAbort", "src", src, "conn", connID, "id", in.ID)
					return finish(ex.Out)
				}
			}
		}
		var timer <-chan time.Time
		if !ex.Hang {
			timer = time.After(time.Duration(ex.DelayMS) * time.Millisecond)
		}
		for {
			select {
			case <-timer:
				return finish(ex.Out)
			case <-cancelC:
				if o, dd, ok := onCancel(); ok {
					return o, dd
				}
				cancelC = nil
			case <-ctx.Done():
				// The server context is cancelled when the connection is closed (a killed container).
				theSink.note("XExecAbort", "src", src, "conn", connID, "id", in.ID)
				return finish(ex.Out)
			}
		}
	}
	cancelHandler := func(_ context.Context, d *workData, _ plugin.CancelInput) {
		select {
		case d.cancel <- struct{}{}:
		default:
		}
	}
	return schema.NewCallableSchema(
		schema.NewCallableStepWithSignals[*workData, workInput](
			"work",
			workInputSchema(),
			workOutputs(),
			map[string]schema.CallableSignal{
				plugin.CancellationSignalSchema.ID(): schema.NewCallableSignalFromSchema(plugin.CancellationSignalSchema, cancelHandler),
			},
			map[string]*schema.SignalSchema{},
			nil,
			func() *workData { return &workData{cancel: make(chan struct{}, 3)} },
			handler,
		),
		schema.NewCallableStep[workInput](
			"nowork",
			workInputSchema(),
			workOutputs(),
			nil,
			func(ctx context.Context, in workInput) (string, any) { return handler(ctx, nil, in) },
		),
	)
}
