package main

import (
	"context"
	"encoding/json"
	"fmt"
	"os"
	"runtime"
	"runtime/debug"
	"strings"
	"sync"
	"time"

	log "go.arcalot.io/log/v2"
	"go.flow.arcalot.io/deployer"
	deployerregistry "go.flow.arcalot.io/deployer/registry"
	engine "go.flow.arcalot.io/engine"
	"go.flow.arcalot.io/engine/config"
	"go.flow.arcalot.io/engine/internal/builtinfunctions"
	"go.flow.arcalot.io/engine/internal/step"
	"go.flow.arcalot.io/engine/loadfile"
	"go.flow.arcalot.io/engine/workflow"
)

type runSpec struct {
	Input         any    `json:"input"`
	InputYAML     string `json:"input_yaml"`      // engine mode: the input file content
	CancelAfterMS int    `json:"cancel_after_ms"` // 0 = never by timer (triggers may still cancel)
	StartDelayMS  int    `json:"start_delay_ms"`
}

type scenario struct {
	Files           map[string]string      `json:"files"`
	Main            string                 `json:"main"`
	Runs            []runSpec              `json:"runs"`
	Overlap         bool                   `json:"overlap"`
	Script          map[string]*stepScript `json:"script"`
	Schedule        *schedule              `json:"schedule"`
	ScribbleResults bool                   `json:"scribble_results"` // overwrite every returned output in place after it was recorded
	NoHooks         bool                   `json:"nohooks"`          // do not install the event sink: the hooks then take no lock and no atomic, so they order nothing (race runs)
	TimeoutMS       int                    `json:"timeout_ms"`
	TraceOut        string                 `json:"trace_out"`
	ResultOut       string                 `json:"result_out"`
	PrepareN        int                    `json:"prepare_n"`        // prepare the workflow this many extra times (unused copies)
	PreparePar      int                    `json:"prepare_parallel"` // additionally prepare it this many times concurrently
	SettleMS        int                    `json:"settle_ms"`
	MaxStackMB      int                    `json:"max_stack_mb"`
	// engine mode: go through engine.New / Parse / Run (the embeddable API the CLI uses)
	Engine      bool     `json:"engine"`
	ContextDir  string   `json:"context_dir"`  // "" = in-memory file cache; else a directory holding the files (abs or relative)
	Cwd         string   `json:"cwd"`          // chdir here first
	PreContexts []string `json:"pre_contexts"` // engine mode: context directories loaded and parsed (and discarded) in this process before the real one
}

type runResult struct {
	OutputID  string  `json:"output_id"`
	Flat      []leaf  `json:"flat"`
	DType     string  `json:"dtype"`
	Err       string  `json:"err"`
	IsErr     bool    `json:"is_err"`
	ErrFlag   bool    `json:"err_flag"` // engine mode: the outputIsError flag
	ElapsedMS float64 `json:"elapsed_ms"`
	CancelMS  float64 `json:"cancel_ms"` // time of caller cancellation relative to run start, -1 if none
	AfterMS   float64 `json:"after_cancel_ms"`
}

type scenarioResult struct {
	PrepareErr string            `json:"prepare_err"`
	Runs       []*runResult      `json:"runs"`
	MaxRun     map[string]int    `json:"max_concurrent"`
	Leaks      []string          `json:"leaks"`
	Watchdog   bool              `json:"watchdog"`
	Panic      string            `json:"panic"`
	Stacks     string            `json:"stacks,omitempty"`
	Info       map[string]string `json:"info"`
}

func newRegistry(book *scriptBook, logger log.Logger) (step.Registry, *config.Config, error) {
	cfg := &config.Config{
		LocalDeployers: map[string]any{
			"scripted": map[string]any{"deployer_name": "scripted"},
		},
	}
	dreg := deployerregistry.New(deployer.Any[*scriptedConfig](scriptedFactory{book: book}))
	reg, err := engine.NewDefaultStepRegistry(logger, dreg, cfg)
	return reg, cfg, err
}

func prepare(reg step.Registry, cfg *config.Config, logger log.Logger, files map[string]string, main string) (workflow.ExecutableWorkflow, error) {
	ctxFiles := map[string][]byte{}
	for k, v := range files {
		ctxFiles[k] = []byte(v)
	}
	wf, err := workflow.NewYAMLConverter(reg).FromYAML(ctxFiles[main])
	if err != nil {
		return nil, err
	}
	ex, err := workflow.NewExecutor(logger, cfg, reg, builtinfunctions.GetFunctions())
	if err != nil {
		return nil, err
	}
	return ex.Prepare(wf, ctxFiles)
}

func engineStacks() (all string, leaked []string) {
	buf := make([]byte, 4<<20)
	n := runtime.Stack(buf, true)
	all = string(buf[:n])
	for _, g := range strings.Split(all, "\n\n") {
		if strings.Contains(g, "main.engineStacks") {
			continue
		}
		if strings.Contains(g, "go.flow.arcalot.io/engine/workflow.") ||
			strings.Contains(g, "go.flow.arcalot.io/engine/internal/step/") ||
			strings.Contains(g, "go.flow.arcalot.io/pluginsdk/atp.") ||
			strings.Contains(g, "main.(*scriptedConnector)") || strings.Contains(g, "main.newScriptedSchema") {
			leaked = append(leaked, g)
		}
	}
	return all, leaked
}

func writeJSON(path string, v any) {
	b, err := json.MarshalIndent(v, "", " ")
	if err != nil {
		b = []byte(fmt.Sprintf("{\"marshal_error\": %q}", err.Error()))
	}
	if path == "" || path == "-" {
		os.Stdout.Write(b)
		os.Stdout.Write([]byte("\n"))
		return
	}
	_ = os.WriteFile(path, b, 0o644)
}

func cmdRun(path string) int {
	raw, err := os.ReadFile(path)
	if err != nil {
		fmt.Fprintln(os.Stderr, err)
		return 2
	}
	var sc scenario
	if err := json.Unmarshal(raw, &sc); err != nil {
		fmt.Fprintln(os.Stderr, "bad scenario:", err)
		return 2
	}
	if sc.Main == "" {
		sc.Main = "workflow.yaml"
	}
	if sc.TimeoutMS == 0 {
		sc.TimeoutMS = 30000
	}
	if sc.MaxStackMB > 0 {
		debug.SetMaxStack(sc.MaxStackMB << 20)
	}
	snk := newSink(sc.Schedule)
	if sc.NoHooks {
		theSink = snk
		snk.disabled = true
	} else {
		snk.install()
	}
	book := newScriptBook(sc.Script)
	res := &scenarioResult{MaxRun: map[string]int{}, Info: map[string]string{}}
	logger := log.New(log.Config{Level: log.LevelError, Destination: log.DestinationStdout})
	if os.Getenv("VERIFH_DEBUG") != "" {
		logger = log.New(log.Config{Level: log.LevelDebug, Destination: log.DestinationStdout})
	}

	finish := func(code int) int {
		res.MaxRun = map[string]int{}
		book.mu.Lock()
		for k, v := range book.maxRun {
			res.MaxRun[k] = v
		}
		book.mu.Unlock()
		if sc.TraceOut != "" {
			if err := snk.writeTrace(sc.TraceOut); err != nil {
				fmt.Fprintln(os.Stderr, "trace:", err)
			}
		}
		writeJSON(sc.ResultOut, res)
		return code
	}

	// watchdog
	done := make(chan struct{})
	go func() {
		select {
		case <-done:
		case <-time.After(time.Duration(sc.TimeoutMS) * time.Millisecond):
			all, _ := engineStacks()
			res.Watchdog = true
			res.Stacks = all
			snk.disabled = true
			os.Exit(finish(3))
		}
	}()

	reg, cfg, err := newRegistry(book, logger)
	if err != nil {
		res.PrepareErr = "registry: " + err.Error()
		return finish(0)
	}
	wfs := newConformance(snk)
	_ = wfs
	var pw workflow.ExecutableWorkflow
	var ew engine.Workflow
	if sc.Engine {
		ew, err = engineParse(book, &sc)
	} else {
		pw, err = prepare(reg, cfg, logger, sc.Files, sc.Main)
	}
	if err != nil {
		res.PrepareErr = err.Error()
		close(done)
		_, leaked := settle(sc.SettleMS)
		res.Leaks = leaked
		return finish(0)
	}
	for i := 0; i < sc.PrepareN && !sc.Engine; i++ {
		if _, err := prepare(reg, cfg, logger, sc.Files, sc.Main); err != nil {
			res.Info["extra_prepare_err"] = err.Error()
		}
	}
	if sc.PreparePar > 0 && !sc.Engine {
		var pwg sync.WaitGroup
		for i := 0; i < sc.PreparePar; i++ {
			pwg.Add(1)
			go func() {
				defer pwg.Done()
				if _, err := prepare(reg, cfg, logger, sc.Files, sc.Main); err != nil {
					snk.note("XPrepareErr", "err", err)
				}
			}()
		}
		pwg.Wait()
	}
	book.phase.Store("run")
	snk.note("XPhase", "phase", "run")
	if len(sc.Runs) == 0 {
		sc.Runs = []runSpec{{}}
	}
	res.Runs = make([]*runResult, len(sc.Runs))
	var wg sync.WaitGroup
	for i := range sc.Runs {
		i := i
		rs := sc.Runs[i]
		ctx, cancel := context.WithCancel(context.Background())
		rr := &runResult{CancelMS: -1}
		res.Runs[i] = rr
		var startT time.Time
		var cmu sync.Mutex
		doCancel := func() {
			cmu.Lock()
			if rr.CancelMS < 0 {
				rr.CancelMS = float64(time.Since(startT).Microseconds()) / 1000
				snk.note("XCallerCancel", "runidx", i)
			}
			cmu.Unlock()
			cancel()
		}
		snk.mu.Lock()
		snk.actions[fmt.Sprintf("cancel:%d", i)] = doCancel
		snk.mu.Unlock()
		body := func() {
			defer wg.Done()
			defer cancel()
			if rs.StartDelayMS > 0 {
				time.Sleep(time.Duration(rs.StartDelayMS) * time.Millisecond)
			}
			startT = time.Now()
			snk.note("XRunCall", "runidx", i)
			if rs.CancelAfterMS > 0 {
				t := time.AfterFunc(time.Duration(rs.CancelAfterMS)*time.Millisecond, doCancel)
				defer t.Stop()
			}
			var oid string
			var data any
			var err error
			if sc.Engine {
				var isErr bool
				oid, data, isErr, err = ew.Run(ctx, []byte(rs.InputYAML))
				rr.ErrFlag = isErr
			} else {
				oid, data, err = pw.Execute(ctx, rs.Input)
			}
			el := time.Since(startT)
			rr.ElapsedMS = float64(el.Microseconds()) / 1000
			cmu.Lock()
			if rr.CancelMS >= 0 {
				rr.AfterMS = rr.ElapsedMS - rr.CancelMS
			}
			cmu.Unlock()
			rr.OutputID = oid
			if err != nil {
				rr.Err = err.Error()
				rr.IsErr = true
			} else {
				rr.Flat = leaves(data)
				rr.DType = fmt.Sprintf("%T", data)
				if sc.ScribbleResults {
					// a caller may do with a result what it likes (redact it, annotate it, sort it): the result
					// of one run is not part of the prepared workflow, nor of any other run
					scribble(data)
				}
			}
			snk.note("XRunRet", "runidx", i, "id", oid, "err", err)
		}
		wg.Add(1)
		if sc.Overlap {
			go body()
		} else {
			body()
		}
	}
	wg.Wait()
	close(done)
	_, leaked := settle(sc.SettleMS)
	res.Leaks = leaked
	return finish(0)
}

// settle waits until no engine goroutine is left (or the time is up) and returns the leftovers.
func settle(ms int) (string, []string) {
	if ms == 0 {
		ms = 1500
	}
	deadline := time.Now().Add(time.Duration(ms) * time.Millisecond)
	for {
		all, leaked := engineStacks()
		if len(leaked) == 0 || time.Now().After(deadline) {
			return all, leaked
		}
		time.Sleep(5 * time.Millisecond)
	}
}

func engineParse(book *scriptBook, sc *scenario) (engine.Workflow, error) {
	if sc.Cwd != "" {
		if err := os.Chdir(sc.Cwd); err != nil {
			return nil, err
		}
	}
	engine.DefaultDeployerRegistry = deployerregistry.New(deployer.Any[*scriptedConfig](scriptedFactory{book: book}))
	cfg := &config.Config{
		LocalDeployers: map[string]any{"scripted": map[string]any{"deployer_name": "scripted"}},
		Log:            log.Config{Level: log.LevelError, Destination: log.DestinationStdout},
	}
	eng, err := engine.New(cfg)
	if err != nil {
		return nil, err
	}
	for _, dir := range sc.PreContexts {
		// what an earlier load of ANOTHER directory with the same relative file names leaves behind must not matter
		if pfc, perr := loadfile.NewFileCacheUsingContext(dir, map[string]string{"workflow": sc.Main}); perr == nil {
			if perr = pfc.LoadContext(); perr == nil {
				_, _ = eng.Parse(pfc, "workflow")
			}
		}
	}
	var fc loadfile.FileCache
	if sc.ContextDir == "" {
		contents := map[string][]byte{}
		for k, v := range sc.Files {
			contents[k] = []byte(v)
		}
		fc = loadfile.NewFileCache("", contents)
	} else {
		fc, err = loadfile.NewFileCacheUsingContext(sc.ContextDir, map[string]string{"workflow": sc.Main})
		if err != nil {
			return nil, err
		}
		if err := fc.LoadContext(); err != nil {
			return nil, err
		}
	}
	key := sc.Main
	if sc.ContextDir != "" {
		key = "workflow"
	}
	return eng.Parse(fc, key)
}

// scribble overwrites a returned value in place: every string leaf, every list element and one extra key per map.
func scribble(v any) {
	switch t := v.(type) {
	case map[string]any:
		for k, x := range t {
			if _, ok := x.(string); ok {
				t[k] = "SCRIBBLED"
			} else {
				scribble(x)
			}
		}
		t["scribbled_by_caller"] = true
	case map[any]any:
		for k, x := range t {
			if _, ok := x.(string); ok {
				t[k] = "SCRIBBLED"
			} else {
				scribble(x)
			}
		}
		t["scribbled_by_caller"] = true
	case []any:
		for i, x := range t {
			if _, ok := x.(string); ok {
				t[i] = "SCRIBBLED"
			} else {
				scribble(x)
			}
		}
	}
}
