package main

// Builtin function driver (C18): calls engine built-in functions with typed arguments, validates the result against
// the function's declared output type, checks determinism and catches panics.

import (
	"encoding/json"
	"fmt"
	"math"
	"os"
	"reflect"
	"strconv"

	"go.flow.arcalot.io/engine/internal/builtinfunctions"
	"go.flow.arcalot.io/pluginsdk/schema"
)

type bArg struct {
	T string `json:"t"` // int | float | string | bool | list | any
	V any    `json:"v"`
}

type bCall struct {
	Fn   string `json:"fn"`
	Args []bArg `json:"args"`
}

type bResult struct {
	OK            bool   `json:"ok"`
	Err           string `json:"err"`
	Panic         string `json:"panic"`
	T             string `json:"t"`
	V             any    `json:"v"`
	SchemaOK      bool   `json:"schema_ok"`
	SchemaErr     string `json:"schema_err"`
	Deterministic bool   `json:"deterministic"`
	Unknown       bool   `json:"unknown_function"`
}

func decodeFloat(v any) float64 {
	switch t := v.(type) {
	case string:
		switch t {
		case "NaN":
			return math.NaN()
		case "+Inf":
			return math.Inf(1)
		case "-Inf":
			return math.Inf(-1)
		case "-0":
			return math.Copysign(0, -1)
		}
		f, _ := strconv.ParseFloat(t, 64)
		return f
	case float64:
		return t
	}
	return 0
}

func decodeArg(a bArg) any {
	switch a.T {
	case "int":
		switch t := a.V.(type) {
		case string:
			i, _ := strconv.ParseInt(t, 10, 64)
			return i
		case float64:
			return int64(t)
		}
		return int64(0)
	case "float":
		return decodeFloat(a.V)
	case "string":
		s, _ := a.V.(string)
		return s
	case "bool":
		b, _ := a.V.(bool)
		return b
	case "list":
		l, _ := a.V.([]any)
		if l == nil {
			l = []any{}
		}
		return l
	}
	return a.V
}

func encodeRes(v any) (string, any) {
	switch t := v.(type) {
	case int64:
		return "int", strconv.FormatInt(t, 10)
	case float64:
		switch {
		case math.IsNaN(t):
			return "float", "NaN"
		case math.IsInf(t, 1):
			return "float", "+Inf"
		case math.IsInf(t, -1):
			return "float", "-Inf"
		case t == 0 && math.Signbit(t):
			return "float", "-0"
		}
		return "float", strconv.FormatFloat(t, 'g', -1, 64)
	case string:
		return "string", t
	case bool:
		return "bool", t
	case nil:
		return "nil", nil
	}
	rv := reflect.ValueOf(v)
	if rv.Kind() == reflect.Slice {
		out := make([]any, rv.Len())
		for i := 0; i < rv.Len(); i++ {
			_, out[i] = encodeRes(rv.Index(i).Interface())
		}
		return "list", out
	}
	if rv.Kind() == reflect.Map {
		out := map[string]any{}
		for _, k := range rv.MapKeys() {
			_, out[fmt.Sprint(k.Interface())] = encodeRes(rv.MapIndex(k).Interface())
		}
		return "map", out
	}
	return fmt.Sprintf("%T", v), fmt.Sprint(v)
}

func callOnce(f schema.CallableFunction, args []any) (res any, err error, pan string) {
	defer func() {
		if r := recover(); r != nil {
			pan = fmt.Sprint(r)
		}
	}()
	res, err = f.Call(args)
	return
}

func cmdBuiltins(path string) int {
	raw, err := os.ReadFile(path)
	if err != nil {
		fmt.Fprintln(os.Stderr, err)
		return 2
	}
	var in struct {
		Calls     []bCall `json:"calls"`
		ResultOut string  `json:"result_out"`
	}
	if err := json.Unmarshal(raw, &in); err != nil {
		fmt.Fprintln(os.Stderr, err)
		return 2
	}
	_ = os.Setenv("VERIF_ENV_SET", "value-from-env")
	_ = os.Setenv("VERIF_ENV_EMPTY", "")
	_ = os.Unsetenv("VERIF_ENV_UNSET")
	fns := builtinfunctions.GetFunctions()
	out := make([]bResult, len(in.Calls))
	for i, c := range in.Calls {
		f, ok := fns[c.Fn]
		if !ok {
			out[i].Unknown = true
			continue
		}
		args := make([]any, len(c.Args))
		for k, a := range c.Args {
			args[k] = decodeArg(a)
		}
		r1, e1, p1 := callOnce(f, args)
		r2, e2, p2 := callOnce(f, args)
		o := &out[i]
		if p1 != "" {
			o.Panic = p1
			continue
		}
		if e1 != nil {
			o.Err = e1.Error()
			o.Deterministic = e2 != nil && p2 == ""
			o.SchemaOK = true
			continue
		}
		o.OK = true
		o.T, o.V = encodeRes(r1)
		t2, v2 := encodeRes(r2)
		o.Deterministic = e2 == nil && p2 == "" && t2 == o.T && reflect.DeepEqual(v2, o.V)
		outType, _, terr := f.Output(f.Parameters())
		if terr != nil || outType == nil {
			// dynamically typed functions need the argument types; not judged here
			o.SchemaOK = true
			o.SchemaErr = "dynamic"
			continue
		}
		if verr := outType.Validate(r1); verr != nil {
			o.SchemaErr = verr.Error()
		} else {
			o.SchemaOK = true
		}
	}
	writeJSON(in.ResultOut, out)
	return 0
}
