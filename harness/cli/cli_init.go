package main

// Overlaid into /repo/cmd/arcaflow together with sink.go and scripted.go (bin/build_harness.sh <out> cli): the real
// command-line program, with the scripted deployer registered as deployment type "scripted" when VERIF_CLI_SCRIPT
// holds a step script. Nothing else of the program is touched, so its argument handling, file loading, exit codes and
// interrupt handling are the real ones.

import (
	"encoding/json"
	"os"

	"go.flow.arcalot.io/deployer"
	deployerregistry "go.flow.arcalot.io/deployer/registry"
	"go.flow.arcalot.io/engine"
)

func init() {
	raw := os.Getenv("VERIF_CLI_SCRIPT")
	if raw == "" {
		return
	}
	script := map[string]*stepScript{}
	if err := json.Unmarshal([]byte(raw), &script); err != nil {
		_, _ = os.Stderr.WriteString("VERIF_CLI_SCRIPT: " + err.Error() + "\n")
		os.Exit(97)
	}
	snk := newSink(nil)
	snk.disabled = true
	theSink = snk
	engine.DefaultDeployerRegistry = deployerregistry.New(deployer.Any[*scriptedConfig](scriptedFactory{book: newScriptBook(script)}))
}
