package main

// Parsing driver (C11): engine.Parse on arbitrary files from a directory, then Run on an arbitrary input file.
// The process is expected to be killed by a Go panic / fatal error when the engine crashes; the caller looks at the
// exit status and stderr.

import (
	"context"
	"encoding/base64"
	"encoding/json"
	"fmt"
	"os"
	"path/filepath"
	"runtime/debug"
	"time"

	log "go.arcalot.io/log/v2"
	"go.flow.arcalot.io/deployer"
	deployerregistry "go.flow.arcalot.io/deployer/registry"
	engine "go.flow.arcalot.io/engine"
	"go.flow.arcalot.io/engine/config"
	"go.flow.arcalot.io/engine/loadfile"
)

type parseScenario struct {
	FilesB64   map[string]string `json:"files_b64"` // name -> base64 content (arbitrary bytes)
	Main       string            `json:"main"`
	InputB64   string            `json:"input_b64"`
	Dir        string            `json:"dir"` // scratch directory to materialise the files in
	RunInput   bool              `json:"run_input"`
	TimeoutMS  int               `json:"timeout_ms"`
	MaxStackMB int               `json:"max_stack_mb"`
	ResultOut  string            `json:"result_out"`
	// SupplyAll: the caller hands Parse a file cache that already holds every file of the context directory (keyed by
	// the path it has there), as a program embedding the engine may, instead of naming only the main workflow
	SupplyAll bool `json:"supply_all"`
}

func cmdParse(path string) int {
	raw, err := os.ReadFile(path)
	if err != nil {
		fmt.Fprintln(os.Stderr, err)
		return 2
	}
	var sc parseScenario
	if err := json.Unmarshal(raw, &sc); err != nil {
		fmt.Fprintln(os.Stderr, "bad scenario:", err)
		return 2
	}
	if sc.MaxStackMB == 0 {
		sc.MaxStackMB = 64
	}
	debug.SetMaxStack(sc.MaxStackMB << 20)
	if sc.TimeoutMS == 0 {
		sc.TimeoutMS = 10000
	}
	res := map[string]any{}
	done := make(chan struct{})
	go func() {
		select {
		case <-done:
		case <-time.After(time.Duration(sc.TimeoutMS) * time.Millisecond):
			all, _ := engineStacks()
			res["watchdog"] = true
			res["stacks"] = all
			writeJSON(sc.ResultOut, res)
			os.Exit(3)
		}
	}()
	snk := newSink(nil)
	snk.install()
	book := newScriptBook(nil)
	if err := os.MkdirAll(sc.Dir, 0o755); err != nil {
		fmt.Fprintln(os.Stderr, err)
		return 2
	}
	for name, b64 := range sc.FilesB64 {
		data, _ := base64.StdEncoding.DecodeString(b64)
		p := filepath.Join(sc.Dir, name)
		_ = os.MkdirAll(filepath.Dir(p), 0o755)
		if err := os.WriteFile(p, data, 0o644); err != nil {
			fmt.Fprintln(os.Stderr, err)
			return 2
		}
	}
	engine.DefaultDeployerRegistry = deployerregistry.New(deployer.Any[*scriptedConfig](scriptedFactory{book: book}))
	cfg := &config.Config{
		LocalDeployers: map[string]any{"scripted": map[string]any{"deployer_name": "scripted"}},
		Log:            log.Config{Level: log.LevelError, Destination: log.DestinationStdout},
	}
	eng, err := engine.New(cfg)
	if err != nil {
		res["engine_err"] = err.Error()
		writeJSON(sc.ResultOut, res)
		return 0
	}
	var fc loadfile.FileCache
	if sc.SupplyAll {
		contents := map[string][]byte{}
		for name, b64 := range sc.FilesB64 {
			data, _ := base64.StdEncoding.DecodeString(b64)
			contents[name] = data
		}
		if _, has := contents[sc.Main]; has {
			contents["workflow"] = contents[sc.Main]
		}
		fc = loadfile.NewFileCache(sc.Dir, contents)
	} else {
		fc, err = loadfile.NewFileCacheUsingContext(sc.Dir, map[string]string{"workflow": sc.Main})
		if err == nil {
			err = fc.LoadContext()
		}
	}
	if err != nil {
		res["load_err"] = trunc(err.Error())
		close(done)
		writeJSON(sc.ResultOut, res)
		return 0
	}
	wf, err := eng.Parse(fc, "workflow")
	if err != nil {
		res["parse_err"] = trunc(err.Error())
	} else {
		res["parsed"] = true
		if sc.RunInput {
			book.phase.Store("run")
			input, _ := base64.StdEncoding.DecodeString(sc.InputB64)
			ctx, cancel := context.WithTimeout(context.Background(), 5*time.Second)
			oid, _, isErr, err := wf.Run(ctx, input)
			cancel()
			res["run_output"] = oid
			res["run_iserr"] = isErr
			if err != nil {
				res["run_err"] = trunc(err.Error())
			}
		}
	}
	// the same files once more, in the same process (a second file cache, the same engine): the verdict is a function of
	// the files, not of what this process parsed before
	book.phase.Store("probe")
	if fc2, err2 := loadfile.NewFileCacheUsingContext(sc.Dir, map[string]string{"workflow": sc.Main}); err2 == nil && fc2.LoadContext() == nil {
		if _, err2 = eng.Parse(fc2, "workflow"); err2 != nil {
			res["parse2_err"] = trunc(err2.Error())
		} else {
			res["parsed2"] = true
		}
	}
	close(done)
	_, leaked := settle(1000)
	res["leaks"] = leaked
	writeJSON(sc.ResultOut, res)
	return 0
}

func trunc(s string) string {
	if len(s) > 300 {
		return s[:300]
	}
	return s
}

var _ = json.Marshal
