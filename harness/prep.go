package main

// Preparation driver (C10, C16): FromYAML + Prepare on given files, repeated, with a canonical dump of what was
// built: DAG nodes and typed dependency edges, output schema ids, namespaces.

import (
	"encoding/json"
	"fmt"
	"os"
	"sort"
	"strings"

	log "go.arcalot.io/log/v2"
	"go.flow.arcalot.io/engine/workflow"
	"go.flow.arcalot.io/pluginsdk/schema"
)

type prepScenario struct {
	Files     map[string]string      `json:"files"`
	Main      string                 `json:"main"`
	Script    map[string]*stepScript `json:"script"`
	Repeat    int                    `json:"repeat"`
	ResultOut string                 `json:"result_out"`
	TraceOut  string                 `json:"trace_out"`
}

type prepDump struct {
	Err        string              `json:"err"`
	Nodes      map[string]string   `json:"nodes"` // id -> kind
	Edges      []string            `json:"edges"` // "m <- n : type"
	Outputs    map[string][]string `json:"outputs"`
	OutputReq  map[string][]string `json:"output_required"` // output id -> required top-level properties of its schema
	Namespaces []string            `json:"namespaces"`
	InputProps []string            `json:"input_props"`
}

func describeType(t schema.Type, depth int) string {
	if t == nil || depth > 6 {
		return "?"
	}
	switch tt := t.(type) {
	case *schema.ObjectSchema:
		keys := make([]string, 0, len(tt.PropertiesValue))
		for k, p := range tt.PropertiesValue {
			req := "?"
			if p.Required() {
				req = "!"
			}
			keys = append(keys, k+req+":"+describeType(p.TypeValue, depth+1))
		}
		sort.Strings(keys)
		return "obj{" + strings.Join(keys, ",") + "}"
	case *schema.ScopeSchema:
		root := tt.ObjectsValue[tt.RootValue]
		return "scope(" + describeType(root, depth+1) + ")"
	case *schema.ListSchema:
		return "list[" + describeType(tt.ItemsValue, depth+1) + "]"
	case *schema.PropertySchema:
		return describeType(tt.TypeValue, depth+1)
	case *schema.RefSchema:
		return "ref"
	}
	if oo, ok := t.(interface {
		Types() map[string]schema.Object
		DiscriminatorFieldName() string
	}); ok {
		keys := make([]string, 0, len(oo.Types()))
		for k, o := range oo.Types() {
			keys = append(keys, k+":"+describeType(o, depth+1))
		}
		sort.Strings(keys)
		return "oneof<" + oo.DiscriminatorFieldName() + ">{" + strings.Join(keys, ",") + "}"
	}
	return string(t.TypeID())
}

func dumpPrepared(pw workflow.ExecutableWorkflow) *prepDump {
	d := &prepDump{Nodes: map[string]string{}, Outputs: map[string][]string{}, OutputReq: map[string][]string{}}
	for id, n := range pw.DAG().ListNodes() {
		d.Nodes[id] = string(n.Item().Kind)
		for dep, ty := range n.OutstandingDependencies() {
			d.Edges = append(d.Edges, fmt.Sprintf("%s <- %s : %s", id, dep, ty))
		}
	}
	sort.Strings(d.Edges)
	for id, o := range pw.OutputSchema() {
		d.Outputs[id] = []string{describeType(o.Schema(), 0), fmt.Sprint(o.Error())}
		req := []string{}
		for k, p := range o.Schema().Properties() {
			if p.Required() {
				req = append(req, k)
			}
		}
		sort.Strings(req)
		d.OutputReq[id] = req
	}
	for ns, objs := range pw.Namespaces() {
		keys := make([]string, 0, len(objs))
		for k := range objs {
			keys = append(keys, k)
		}
		sort.Strings(keys)
		d.Namespaces = append(d.Namespaces, ns+"="+strings.Join(keys, ","))
	}
	sort.Strings(d.Namespaces)
	for k := range pw.Input().Objects()[pw.Input().Root()].Properties() {
		d.InputProps = append(d.InputProps, k)
	}
	sort.Strings(d.InputProps)
	return d
}

func cmdPrep(path string) int {
	raw, err := os.ReadFile(path)
	if err != nil {
		fmt.Fprintln(os.Stderr, err)
		return 2
	}
	var sc prepScenario
	if err := json.Unmarshal(raw, &sc); err != nil {
		fmt.Fprintln(os.Stderr, "bad scenario:", err)
		return 2
	}
	if sc.Main == "" {
		sc.Main = "workflow.yaml"
	}
	if sc.Repeat == 0 {
		sc.Repeat = 1
	}
	snk := newSink(nil)
	snk.install()
	book := newScriptBook(sc.Script)
	logger := log.New(log.Config{Level: log.LevelError, Destination: log.DestinationStdout})
	reg, cfg, err := newRegistry(book, logger)
	if err != nil {
		fmt.Fprintln(os.Stderr, err)
		return 2
	}
	var dumps []*prepDump
	for i := 0; i < sc.Repeat; i++ {
		pw, err := prepare(reg, cfg, logger, sc.Files, sc.Main)
		if err != nil {
			msg := err.Error()
			if len(msg) > 400 {
				msg = msg[:400]
			}
			dumps = append(dumps, &prepDump{Err: msg})
			continue
		}
		dumps = append(dumps, dumpPrepared(pw))
	}
	_, leaked := settle(1000)
	writeJSON(sc.ResultOut, map[string]any{"dumps": dumps, "leaks": leaked})
	if sc.TraceOut != "" {
		_ = snk.writeTrace(sc.TraceOut)
	}
	return 0
}
