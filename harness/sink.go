package main

// Event sink, trace writer and gate scheduler. Everything here runs only in the verification harness; the
// engine sees it through the internal/verifhook function variables.

import (
	"bufio"
	"encoding/json"
	"fmt"
	"hash/fnv"
	"os"
	"reflect"
	"runtime"
	"sort"
	"strconv"
	"strings"
	"sync"
	"time"

	"go.flow.arcalot.io/engine/internal/verifhook"
)

type event map[string]any

type stall struct {
	Point string `json:"point"` // gate name, or "ev:<kind>" to stall the emitting goroutine after an event
	Step  string `json:"step"`  // optional filter on the step id
	Nth   int    `json:"nth"`   // 0 = every occurrence, n = only the n-th matching occurrence (1-based)
	MS    int    `json:"ms"`
	// Optional: hold until an event with this kind (and step, if set) has been seen, at most MS milliseconds.
	UntilEv   string `json:"until_ev"`
	UntilStep string `json:"until_step"`
	seen      int
}

type trigger struct {
	Point  string `json:"point"` // gate name or "ev:<kind>"
	Step   string `json:"step"`
	Nth    int    `json:"nth"`
	Field  string `json:"field"` // optional: event field that must equal Value
	Value  string `json:"value"`
	Action string `json:"action"` // "cancel" (cancel the caller's context of run Run), "close:<step>", "release:<gate>"
	Run    int    `json:"run"`
	seen   int
	fired  bool
}

type schedule struct {
	NoiseSeed  int64      `json:"noise_seed"`
	NoiseMaxUS int        `json:"noise_max_us"` // 0 = no noise
	NoisePct   int        `json:"noise_pct"`    // probability (percent) that a gate sleeps
	Stalls     []*stall   `json:"stalls"`
	Triggers   []*trigger `json:"triggers"`
}

type sink struct {
	mu       sync.Mutex
	events   []event
	ptrIDs   map[uintptr]string // pointer -> symbolic id
	ptrCount map[string]int
	pinned   []any             // every identified object is kept reachable: a collected object's address could be reused and two objects would share an id
	objStep  map[string]string // obj id -> step id
	sched    *schedule
	actions  map[string]func() // action name -> function
	seenEv   map[string]int    // "kind|step" -> count, for UntilEv
	cond     *sync.Cond
	gateN    map[string]int
	valueFn  func(kind string, ev event, kv []any) // enrichment (conformance), called outside mu
	disabled bool
}

var theSink *sink

func newSink(sched *schedule) *sink {
	s := &sink{
		ptrIDs:   map[uintptr]string{},
		ptrCount: map[string]int{},
		objStep:  map[string]string{},
		sched:    sched,
		actions:  map[string]func(){},
		seenEv:   map[string]int{},
		gateN:    map[string]int{},
	}
	s.cond = sync.NewCond(&s.mu)
	if s.sched == nil {
		s.sched = &schedule{}
	}
	return s
}

func (s *sink) install() {
	theSink = s
	verifhook.Sink = s.emit
	verifhook.GateFn = s.gate
}

func goid() int {
	var buf [64]byte
	n := runtime.Stack(buf[:], false)
	// "goroutine 123 [running]:"
	f := strings.Fields(string(buf[:n]))
	if len(f) >= 2 {
		if id, err := strconv.Atoi(f[1]); err == nil {
			return id
		}
	}
	return -1
}

func (s *sink) ptrID(prefix string, v any) string {
	rv := reflect.ValueOf(v)
	var p uintptr
	switch rv.Kind() {
	case reflect.Ptr, reflect.Map, reflect.Chan, reflect.Func, reflect.UnsafePointer:
		p = rv.Pointer()
	default:
		return prefix + "?"
	}
	if id, ok := s.ptrIDs[p]; ok {
		return id
	}
	id := prefix + strconv.Itoa(s.ptrCount[prefix])
	s.ptrCount[prefix]++
	s.ptrIDs[p] = id
	s.pinned = append(s.pinned, v)
	return id
}

type leaf struct {
	P []string `json:"p"`
	V string   `json:"v"`
	T string   `json:"t"` // kind of the Go value: s(tring) i(nt) b(ool) f(loat) n(ull) e(mpty container) x(other)
}

// leaves flattens a value into a list of (path, scalar string) pairs, sorted by path.
func leaves(v any) []leaf {
	m := map[string]string{}
	flatten("", v, m, 0)
	keys := make([]string, 0, len(m))
	for k := range m {
		keys = append(keys, k)
	}
	sort.Strings(keys)
	out := make([]leaf, 0, len(keys))
	for _, k := range keys {
		p := []string{}
		if k != "" {
			p = strings.Split(k, "\x00")
		}
		v := m[k]
		t := "s"
		if len(v) >= 2 && v[1] == '\x01' {
			t = v[:1]
			v = v[2:]
		}
		out = append(out, leaf{P: p, V: v, T: t})
	}
	return out
}

// flatten turns a value into leaf-path -> scalar string (path segments joined by NUL). Structs are reported as
// "<struct:T>" leaves, nil maps/slices as "null".
func flatten(prefix string, v any, out map[string]string, depth int) {
	if len(out) > 400 {
		return
	}
	if v == nil {
		out[prefix] = "n\x01null"
		return
	}
	if depth > 10 {
		out[prefix] = "<deep>"
		return
	}
	rv := reflect.ValueOf(v)
	switch rv.Kind() {
	case reflect.Map:
		if rv.IsNil() {
			out[prefix] = "n\x01null"
			return
		}
		if rv.Len() == 0 {
			out[prefix] = "e\x01{}"
			return
		}
		for _, k := range rv.MapKeys() {
			key := fmt.Sprint(k.Interface())
			p := key
			if prefix != "" {
				p = prefix + "\x00" + key
			}
			flatten(p, rv.MapIndex(k).Interface(), out, depth+1)
		}
	case reflect.Slice, reflect.Array:
		if rv.Kind() == reflect.Slice && rv.IsNil() {
			out[prefix] = "n\x01null"
			return
		}
		if rv.Len() == 0 {
			out[prefix] = "e\x01[]"
			return
		}
		for i := 0; i < rv.Len(); i++ {
			p := strconv.Itoa(i)
			if prefix != "" {
				p = prefix + "\x00" + p
			}
			flatten(p, rv.Index(i).Interface(), out, depth+1)
		}
	case reflect.Ptr, reflect.Interface:
		if rv.IsNil() {
			out[prefix] = "n\x01null"
			return
		}
		flatten(prefix, rv.Elem().Interface(), out, depth+1)
	case reflect.Struct:
		out[prefix] = "x\x01<struct:" + rv.Type().String() + ">"
	case reflect.String:
		out[prefix] = rv.String()
	case reflect.Bool:
		out[prefix] = "b\x01" + strconv.FormatBool(rv.Bool())
	case reflect.Int, reflect.Int8, reflect.Int16, reflect.Int32, reflect.Int64:
		out[prefix] = "i\x01" + strconv.FormatInt(rv.Int(), 10)
	case reflect.Uint, reflect.Uint8, reflect.Uint16, reflect.Uint32, reflect.Uint64:
		out[prefix] = "i\x01" + strconv.FormatUint(rv.Uint(), 10)
	case reflect.Float32, reflect.Float64:
		out[prefix] = "f\x01" + strconv.FormatFloat(rv.Float(), 'g', -1, 64)
	default:
		out[prefix] = "<" + rv.Kind().String() + ">"
	}
}

func (s *sink) convert(key string, v any) any {
	switch key {
	case "run":
		return s.ptrID("r", v)
	case "wf":
		return s.ptrID("w", v)
	case "obj":
		return s.ptrID("o", v)
	case "data":
		var root any = v
		if p, ok := v.(*any); ok {
			if p == nil {
				return nil
			}
			root = *p
		}
		return leaves(root)
	}
	switch t := v.(type) {
	case nil:
		return nil
	case *string:
		if t == nil {
			return nil
		}
		return *t
	case error:
		if t == nil {
			return nil
		}
		msg := t.Error()
		if len(msg) > 300 {
			msg = msg[:300]
		}
		return msg
	case string, bool, int, int64, float64:
		return t
	case []leaf:
		return t
	}
	rv := reflect.ValueOf(v)
	switch rv.Kind() {
	case reflect.Map:
		m := map[string]string{}
		for _, k := range rv.MapKeys() {
			m[fmt.Sprint(k.Interface())] = fmt.Sprint(rv.MapIndex(k).Interface())
		}
		return m
	case reflect.Ptr, reflect.Interface:
		if rv.IsNil() {
			return nil
		}
	}
	return fmt.Sprint(v)
}

func (s *sink) emit(seq uint64, kind string, kv []any) {
	if s.disabled {
		return
	}
	g := goid()
	ev := event{"seq": seq, "ev": kind, "g": g}
	s.mu.Lock()
	for i := 0; i+1 < len(kv); i += 2 {
		k, _ := kv[i].(string)
		ev[k] = s.convert(k, kv[i+1])
		if k == "data" {
			root := kv[i+1]
			if p, ok := root.(*any); ok && p != nil {
				root = *p
			}
			if root != nil {
				ev["dtype"] = reflect.TypeOf(root).String()
			}
		}
	}
	if kind == "SStart" {
		if o, ok := ev["obj"].(string); ok {
			s.objStep[o], _ = ev["step"].(string)
		}
	}
	if o, ok := ev["obj"].(string); ok {
		if _, has := ev["step"]; !has {
			ev["step"] = s.objStep[o]
		}
	}
	step, _ := ev["step"].(string)
	s.mu.Unlock()
	if s.valueFn != nil {
		s.valueFn(kind, ev, kv)
	}
	s.mu.Lock()
	s.events = append(s.events, ev)
	s.seenEv[kind+"|"]++
	s.seenEv[kind+"|"+step]++
	s.cond.Broadcast()
	fire := s.matchTriggers("ev:"+kind, step, ev)
	delay := s.matchStalls("ev:"+kind, step)
	s.mu.Unlock()
	for _, f := range fire {
		f()
	}
	s.doStalls(delay)
}

func (s *sink) matchTriggers(point, step string, ev event) []func() {
	var out []func()
	for _, t := range s.sched.Triggers {
		if t.fired || t.Point != point || (t.Step != "" && t.Step != step) {
			continue
		}
		if t.Field != "" {
			if ev == nil || fmt.Sprint(ev[t.Field]) != t.Value {
				continue
			}
		}
		t.seen++
		if t.Nth != 0 && t.seen != t.Nth {
			continue
		}
		t.fired = true
		name := t.Action
		if name == "cancel" {
			name = "cancel:" + strconv.Itoa(t.Run)
		}
		if f, ok := s.actions[name]; ok {
			out = append(out, f)
		}
	}
	return out
}

func (s *sink) matchStalls(point, step string) []*stall {
	var out []*stall
	for _, st := range s.sched.Stalls {
		if st.Point != point || (st.Step != "" && st.Step != step) {
			continue
		}
		st.seen++
		if st.Nth != 0 && st.seen != st.Nth {
			continue
		}
		out = append(out, st)
	}
	return out
}

func (s *sink) doStalls(sts []*stall) {
	for _, st := range sts {
		if st.UntilEv == "" {
			time.Sleep(time.Duration(st.MS) * time.Millisecond)
			continue
		}
		deadline := time.Now().Add(time.Duration(st.MS) * time.Millisecond)
		key := st.UntilEv + "|" + st.UntilStep
		timer := time.AfterFunc(time.Duration(st.MS)*time.Millisecond, func() {
			s.mu.Lock()
			s.cond.Broadcast()
			s.mu.Unlock()
		})
		s.mu.Lock()
		for s.seenEv[key] == 0 && time.Now().Before(deadline) {
			s.cond.Wait()
		}
		s.mu.Unlock()
		timer.Stop()
	}
}

func (s *sink) gate(point string, kv []any) {
	if s.disabled {
		return
	}
	step := ""
	s.mu.Lock()
	for i := 0; i+1 < len(kv); i += 2 {
		k, _ := kv[i].(string)
		switch k {
		case "step":
			step, _ = kv[i+1].(string)
		case "obj":
			step = s.objStep[s.ptrID("o", kv[i+1])]
		}
	}
	s.gateN[point]++
	n := s.gateN[point]
	fire := s.matchTriggers(point, step, nil)
	delay := s.matchStalls(point, step)
	noise := 0
	if s.sched.NoiseMaxUS > 0 {
		h := fnv.New64a()
		fmt.Fprintf(h, "%d|%s|%s|%d", s.sched.NoiseSeed, point, step, n)
		x := h.Sum64()
		pct := s.sched.NoisePct
		if pct == 0 {
			pct = 30
		}
		if int(x%100) < pct {
			noise = int((x / 100) % uint64(s.sched.NoiseMaxUS))
		}
	}
	s.mu.Unlock()
	for _, f := range fire {
		f()
	}
	s.doStalls(delay)
	if noise > 0 {
		time.Sleep(time.Duration(noise) * time.Microsecond)
	}
}

// harness-side event
func (s *sink) note(kind string, kv ...any) {
	verifhook.Emit(kind, kv...)
}

func (s *sink) snapshot() []event {
	s.mu.Lock()
	defer s.mu.Unlock()
	out := make([]event, len(s.events))
	copy(out, s.events)
	sort.SliceStable(out, func(i, j int) bool { return out[i]["seq"].(uint64) < out[j]["seq"].(uint64) })
	return out
}

func (s *sink) writeTrace(path string) error {
	f, err := os.Create(path)
	if err != nil {
		return err
	}
	defer f.Close()
	w := bufio.NewWriter(f)
	enc := json.NewEncoder(w)
	for _, ev := range s.snapshot() {
		if err := enc.Encode(ev); err != nil {
			return err
		}
	}
	return w.Flush()
}
