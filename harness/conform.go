package main

// Conformance enrichment: for every value a step hands to the run loop, check it against the schema the
// lifecycle declares for that stage output (C08). Runs inside the sink, outside its mutex.

import (
	"sync"

	"go.flow.arcalot.io/engine/workflow"
)

type conformance struct {
	mu   sync.Mutex
	wfOf map[string]workflow.ExecutableWorkflow // run id -> prepared workflow
}

func newConformance(s *sink) *conformance {
	c := &conformance{wfOf: map[string]workflow.ExecutableWorkflow{}}
	s.valueFn = c.enrich
	return c
}

func kvGet(kv []any, key string) any {
	for i := 0; i+1 < len(kv); i += 2 {
		if k, _ := kv[i].(string); k == key {
			return kv[i+1]
		}
	}
	return nil
}

func (c *conformance) enrich(kind string, ev event, kv []any) {
	switch kind {
	case "RunBegin":
		if wf, ok := kvGet(kv, "wf").(workflow.ExecutableWorkflow); ok {
			run, _ := ev["run"].(string)
			c.mu.Lock()
			c.wfOf[run] = wf
			c.mu.Unlock()
		}
	case "HEnter", "Stored":
		// HEnter: the value as the step hands it to the run loop; Stored: the value as the run loop makes it
		// available to expressions (the one C08 speaks about)
		if (kind == "HEnter" && ev["h"] != "S") || ev["out"] == nil || ev["prev"] == nil {
			return
		}
		run, _ := ev["run"].(string)
		c.mu.Lock()
		wf := c.wfOf[run]
		c.mu.Unlock()
		if wf == nil {
			return
		}
		stepID, _ := ev["step"].(string)
		prev, _ := ev["prev"].(string)
		out, _ := ev["out"].(string)
		node, err := wf.DAG().GetNodeByID(workflow.GetOutputNodeID(stepID, prev, out))
		if err != nil {
			ev["declared"] = false
			return
		}
		ev["declared"] = true
		prov := node.Item().Provider
		if prov == nil {
			return
		}
		lc, err := prov.Lifecycle(map[string]any{"step": "work"})
		if err != nil {
			lc, err = prov.Lifecycle(map[string]any{})
			if err != nil {
				return
			}
		}
		raw := kvGet(kv, "data")
		p, isPtr := raw.(*any)
		if !isPtr {
			p = &raw
		}
		if p == nil {
			return
		}
		for _, st := range lc.Stages {
			if st.ID != prev {
				continue
			}
			os, ok := st.Outputs[out]
			if !ok {
				ev["declared"] = false
				return
			}
			if _, err := os.Unserialize(*p); err != nil {
				ev["conforms"] = false
				msg := err.Error()
				if len(msg) > 200 {
					msg = msg[:200]
				}
				ev["cerr"] = msg
			} else {
				ev["conforms"] = true
			}
		}
	}
}
