#!/bin/bash
# Offline setup: warm the Go build cache by building the harness once, and check that TLC starts.
set -e
export GOFLAGS=-mod=mod GOPROXY=off GOSUMDB=off GOTOOLCHAIN=local
cd /verif
T=$(mktemp -d /tmp/verif-setup.XXXXXX)
trap 'rm -rf "$T"' EXIT
bin/build_harness.sh "$T" >/dev/null
bin/build_harness.sh "$T" race >/dev/null || echo "race build failed (C17 will report inconclusive)"
cat > "$T/Smoke.tla" <<'TLA'
---- MODULE Smoke ----
EXTENDS Naturals
VARIABLE x
Init == x = 0
Next == x < 3 /\ x' = x + 1
====
TLA
printf 'INIT Init\nNEXT Next\nCHECK_DEADLOCK FALSE\n' > "$T/Smoke.cfg"
(cd "$T" && timeout 120 tlc -metadir "$T/md" Smoke.tla >/dev/null) && echo "setup ok"
