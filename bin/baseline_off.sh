#!/bin/bash
# Runs the repository's pinned test suite with the verif guard OFF (no -tags verif).
export GOFLAGS=-mod=mod GOPROXY=off GOSUMDB=off GOTOOLCHAIN=local
cd /repo && go test -json -vet=off -count=1 -timeout 25m ./...
