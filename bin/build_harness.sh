#!/bin/bash
# Build the harness inside /repo's module via an overlay. usage: build_harness.sh <outdir> [race]
set -e
OUT=${1:?outdir}; RACE=${2:-}
export GOFLAGS=-mod=mod GOPROXY=off GOSUMDB=off GOTOOLCHAIN=local
mkdir -p "$OUT"
python3 - "$OUT" <<'PY'
import json,os,sys,glob
out=sys.argv[1]
rep={}
for f in glob.glob('/verif/harness/*.go'):
    rep['/repo/cmd/verifh/'+os.path.basename(f)]=f
json.dump({"Replace":rep},open(os.path.join(out,'overlay.json'),'w'))
PY
cd /repo
if [ "$RACE" = cli ]; then
  # the real command-line program + the scripted deployer (harness/cli/cli_init.go)
  python3 - "$OUT" <<'PY'
import json,os,sys
out=sys.argv[1]
rep={'/repo/cmd/arcaflow/zz_verif_sink.go':'/verif/harness/sink.go','/repo/cmd/arcaflow/zz_verif_scripted.go':'/verif/harness/scripted.go',
     '/repo/cmd/arcaflow/zz_verif_cli_init.go':'/verif/harness/cli/cli_init.go'}
json.dump({"Replace":rep},open(os.path.join(out,'overlay_cli.json'),'w'))
PY
  go build -overlay "$OUT/overlay_cli.json" -tags verif -o "$OUT/verifcli" ./cmd/arcaflow
  exit $?
fi
if [ "$RACE" = race ]; then
  go build -overlay "$OUT/overlay.json" -tags verif -race -o "$OUT/verifh-race" ./cmd/verifh
else
  go build -overlay "$OUT/overlay.json" -tags verif -o "$OUT/verifh" ./cmd/verifh
fi
