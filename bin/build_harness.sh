#!/bin/bash
# Build the harness inside /repo's module via an overlay. usage: build_harness.sh <outdir> [race]
set -e
OUT=${1:?outdir}; RACE=${2:-}
export GOFLAGS=-mod=mod GOPROXY=off GOSUMDB=off GOTOOLCHAIN=local
mkdir -p "$OUT"
python3 - "$OUT" <<'PY'
import json,os,sys,glob
out=sys.argv[1]
rep={}
for f in glob.glob('/verif/harness/*.go'):
    rep['/repo/cmd/verifh/'+os.path.basename(f)]=f
json.dump({"Replace":rep},open(os.path.join(out,'overlay.json'),'w'))
PY
cd /repo
if [ "$RACE" = race ]; then
  go build -overlay "$OUT/overlay.json" -tags verif -race -o "$OUT/verifh-race" ./cmd/verifh
else
  go build -overlay "$OUT/overlay.json" -tags verif -o "$OUT/verifh" ./cmd/verifh
fi
