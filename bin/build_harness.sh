#!/bin/bash
# Build the harness inside /repo's module via an overlay. usage: build_harness.sh <outdir> [race]
set -e
OUT=${1:?outdir}; RACE=${2:-}
export GOFLAGS=-mod=mod GOPROXY=off GOSUMDB=off GOTOOLCHAIN=local
# the engine tree to build: /repo, unless a seed trial points at a scratch worktree of it (tools/try_seed_wt.py)
export VERIF_REPO=${VERIF_REPO:-/repo}
mkdir -p "$OUT"
python3 - "$OUT" <<'PY'
import json,os,sys,glob
out=sys.argv[1]
rep={}
for f in glob.glob('/verif/harness/*.go'):
    rep[os.environ['VERIF_REPO']+'/cmd/verifh/'+os.path.basename(f)]=f
json.dump({"Replace":rep},open(os.path.join(out,'overlay.json'),'w'))
PY
cd "$VERIF_REPO"
if [ "$RACE" = cli ]; then
  # the real command-line program + the scripted deployer (harness/cli/cli_init.go)
  python3 - "$OUT" <<'PY'
import json,os,sys
out=sys.argv[1]
R=os.environ['VERIF_REPO']
rep={R+'/cmd/arcaflow/zz_verif_sink.go':'/verif/harness/sink.go',R+'/cmd/arcaflow/zz_verif_scripted.go':'/verif/harness/scripted.go',
     R+'/cmd/arcaflow/zz_verif_cli_init.go':'/verif/harness/cli/cli_init.go'}
json.dump({"Replace":rep},open(os.path.join(out,'overlay_cli.json'),'w'))
PY
  go build -overlay "$OUT/overlay_cli.json" -tags verif -o "$OUT/verifcli" ./cmd/arcaflow
  exit $?
fi
if [ "$RACE" = race ]; then
  go build -overlay "$OUT/overlay.json" -tags verif -race -o "$OUT/verifh-race" ./cmd/verifh
else
  go build -overlay "$OUT/overlay.json" -tags verif -o "$OUT/verifh" ./cmd/verifh
fi
